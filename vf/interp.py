"""Execute a kernel's own Python source under CPython with NumPy / SciPy semantics.

Only the kernel's own body is interpreted; its callees stay whatever the module provides (compiled
dispatchers), which is what numba's own `.py_func` does.  Module globals that are numba *types* are replaced
by the NumPy dtypes of the same name, `numba.prange` by `range`, and `np.round(a, d, out)` with an integer
`out` (which NumPy refuses) by "round, then C cast on store"; the unrounded values are recorded so that
rounding ties can be recognised exactly.
"""
from __future__ import annotations

import types

import numba
import numpy as np


class RoundLog:
    def __init__(self):
        self.ties = False

    def reset(self):
        self.ties = False


ROUNDLOG = RoundLog()


class NPProxy:
    def __getattr__(self, k):
        return getattr(np, k)

    @staticmethod
    def round(a, decimals=0, out=None):
        a = np.asarray(a)
        if decimals == 0 and a.dtype.kind == "f":
            frac = np.abs(a - np.floor(a) - 0.5)
            if np.any(frac < 1e-6):
                ROUNDLOG.ties = True
        r = np.round(a, decimals)
        if out is None:
            return r
        with np.errstate(all="ignore"):
            out[...] = r.astype(out.dtype)
        return out


NPX = NPProxy()


VIRTUAL_THREADS = [1]        # what numba.get_num_threads() answers under the interpreter: the harness decides


class NumbaShim(types.SimpleNamespace):
    """`numba` as seen by interpreted kernel source: prange is range, the thread count is an environment answer
    owned by the harness, anything else falls through to the real module."""

    def get_num_threads(self):
        return VIRTUAL_THREADS[0]

    def __getattr__(self, name):
        return getattr(numba, name)


def pyfunc_of(obj):
    """The undecorated Python function of a kernel object, or None."""
    if hasattr(obj, "py_func"):
        return obj.py_func
    w = getattr(obj, "__wrapped__", None)
    if w is not None and isinstance(w, types.FunctionType):
        return w
    return None


def interpreted(fn):
    """A copy of the Python function `fn` whose globals are patched for CPython execution."""
    g = dict(fn.__globals__)
    for k, v in list(g.items()):
        if isinstance(v, numba.core.types.Type):
            name = str(v)
            if name == "bool":
                g[k] = np.bool_
            elif hasattr(np, name):
                g[k] = getattr(np, name)
        elif v is np:
            g[k] = NPX
        elif v is numba:
            g[k] = NumbaShim(prange=range, float64=np.float64, int64=np.int64, **{})
    return types.FunctionType(fn.__code__, g, fn.__name__, fn.__defaults__, fn.__closure__)

"""A controlled dask scheduler: `compute(scheduler=ControlledGet(...))` executes the task graph sequentially,
picking among the ready tasks according to an explicit choice sequence (default choice = dask's own static
order), so that task orders can be enumerated exhaustively with a deviation budget."""
from __future__ import annotations

from collections.abc import Mapping


def _materialise(dsk):
    from dask._task_spec import convert_legacy_graph
    if not isinstance(dsk, Mapping):
        dsk = dsk.__dask_graph__()
    return convert_legacy_graph(dict(dsk))


class ControlledGet:
    """Callable usable as dask scheduler. After a run: .points (number of ready tasks at each step),
    .choices, .order (keys in execution order)."""

    def __init__(self, prefix=(), priority=None):
        self.prefix = list(prefix)
        self.priority = priority        # optional key -> rank (lower runs first) overriding the default order
        self.points = []
        self.choices = []
        self.order = []

    def __call__(self, dsk, keys, **kw):
        import dask.order
        g = _materialise(dsk)
        deps = {k: set(getattr(v, "dependencies", ())) & set(g) for k, v in g.items()}
        try:
            static = dask.order.order(g)
        except Exception:
            static = {k: i for i, k in enumerate(sorted(g, key=str))}
        rank = dict(static)
        if self.priority:
            for k in g:
                pr = self.priority(k)
                if pr is not None:
                    rank[k] = (-1, pr)
                else:
                    rank[k] = (0, static[k])
        else:
            rank = {k: (0, static[k]) for k in g}
        done = {}
        step = 0
        remaining = set(g)
        while remaining:
            ready = sorted((k for k in remaining if deps[k] <= done.keys()), key=lambda k: rank[k])
            if not ready:
                raise RuntimeError("dependency cycle in task graph")
            c = self.prefix[step] if step < len(self.prefix) else 0
            if c >= len(ready):
                raise RuntimeError(f"replay divergence at step {step}: choice {c}, {len(ready)} ready")
            self.points.append(len(ready))
            self.choices.append(c)
            k = ready[c]
            t = g[k]
            done[k] = t({d: done[d] for d in t.dependencies}) if hasattr(t, "dependencies") else t
            self.order.append(k)
            remaining.discard(k)
            step += 1

        def fetch(ks):
            if isinstance(ks, (list, tuple)) and not (isinstance(ks, tuple) and ks in done):
                return [fetch(q) for q in ks]
            return done[ks]
        return fetch(keys)


def explore_orders(compute, bound, check, max_execs=None):
    """Enumerate every schedule with at most `bound` deviations from dask's static order.

    compute(get) -> result; check(result) -> message or None.
    """
    stack = [[]]
    execs = 0
    violations = []
    maxpts = 0
    capped = False
    while stack:
        if max_execs is not None and execs >= max_execs:
            capped = True
            break
        prefix = stack.pop()
        get = ControlledGet(prefix)
        res = compute(get)
        execs += 1
        maxpts = max(maxpts, len(get.points))
        msg = check(res)
        if msg:
            violations.append((list(get.choices), msg))
        dev = sum(1 for c in get.choices[:len(prefix)] if c != 0)
        if dev >= bound:
            continue
        for i in range(len(prefix), len(get.points)):
            for alt in range(1, get.points[i]):
                stack.append(get.choices[:i] + [alt])
    return {"executions": execs, "violations": violations, "max_points": maxpts, "capped": capped}

"""Virtual prange: run the iterations of a `numba.prange` loop as cooperatively scheduled Python threads.

The kernel's own source is rewritten by an AST transform: the body of `for v in numba.prange(n)` becomes a
nested function (names assigned inside it are locals - Numba's privatisation rule for prange bodies; names it
only reads are the enclosing frame's), and the loop becomes a call `__run_prange(body, n)` that the harness
supplies.  Callee kernels stay compiled and are atomic steps.
"""
from __future__ import annotations

import ast
import inspect
import textwrap

import numpy as np

from .. import interp


class _T(ast.NodeTransformer):
    def __init__(self):
        self.found = 0

    def visit_For(self, node):
        self.generic_visit(node)
        it = node.iter
        if isinstance(it, ast.Call) and ast.unparse(it.func).endswith("prange") and isinstance(node.target, ast.Name):
            self.found += 1
            kw = dict(name="__prange_body", args=ast.arguments(posonlyargs=[], args=[ast.arg(arg=node.target.id)], kwonlyargs=[],
                                                                kw_defaults=[], defaults=[]),
                      body=node.body, decorator_list=[])
            try:
                body = ast.FunctionDef(**kw, type_params=[])
            except TypeError:
                body = ast.FunctionDef(**kw)
            call = ast.Expr(ast.Call(func=ast.Name("__run_prange", ast.Load()), args=[ast.Name("__prange_body", ast.Load()), it.args[0]], keywords=[]))
            return [body, call]
        return node


def virtualise(fn):
    """Returns (builder, n_prange_loops, body_code_holder). builder(run_prange) -> python function."""
    src = textwrap.dedent(inspect.getsource(fn))
    tree = ast.parse(src)
    fdef = tree.body[0]
    fdef.decorator_list = []
    tr = _T()
    tree = tr.visit(tree)
    ast.fix_missing_locations(tree)
    code = compile(tree, f"<vprange:{fn.__name__}>", "exec")
    base = interp.interpreted(fn).__globals__

    def build(run_prange):
        g = dict(base)
        g["__run_prange"] = run_prange
        exec(code, g)
        return g[fn.__name__]
    return build, tr.found

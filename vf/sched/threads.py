"""Stateless schedule exploration for real Python threads (baton scheduler).

Each thread under exploration runs with a sys.settrace tracer that, at every line (or bytecode) event inside
the *target* code objects, hands the baton back to the explorer, which resumes the thread the schedule says.
Exactly one thread runs at any time, so an execution is a deterministic function of its choice sequence.
Exploration = iterative preemption bounding (Musuvathi & Qadeer): replay a prefix, then always continue the
running thread (choice 0); alternatives are enumerated with a budget of preemptions.

Locks: code under exploration that wants a lock must get `ShimLock` (see `shim_threading`), whose acquire()
blocks cooperatively; "no enabled thread and not all finished" is reported as a deadlock.
"""
from __future__ import annotations

import sys
import threading
import types


class Deadlock(Exception):
    pass


class ReplayDivergence(RuntimeError):
    pass


class ShimLock:
    """Cooperative lock: blocks by yielding to the explorer, never on an OS primitive."""

    def __init__(self, reentrant=False):
        self.owner = None
        self.count = 0
        self.reentrant = reentrant

    def acquire(self, blocking=True, timeout=-1):
        run, tid = _CURRENT.run, _CURRENT.tid
        if run is None:                      # not under exploration: behave like an uncontended lock
            self.owner, self.count = "main", self.count + 1
            return True
        if not blocking:
            # a try-lock is a scheduling point but never waits: it fails when another thread holds the lock
            run._yield(tid, ("lock.try_acquire", id(self)))
            if self.free_for(tid):
                self.owner = tid
                self.count += 1
                return True
            return False
        while True:
            run._yield(tid, ("lock.acquire", id(self)), waiting=self)
            if self.owner is None or (self.reentrant and self.owner == tid):
                self.owner = tid
                self.count += 1
                return True

    def release(self):
        self.count -= 1
        if self.count <= 0:
            self.owner, self.count = None, 0

    def locked(self):
        return self.owner is not None

    __enter__ = acquire

    def __exit__(self, *a):
        self.release()

    def free_for(self, tid):
        return self.owner is None or (self.reentrant and self.owner == tid)


class ShimEvent:
    """Cooperative threading.Event."""

    def __init__(self):
        self.flag = False

    def set(self):
        self.flag = True

    def clear(self):
        self.flag = False

    def is_set(self):
        return self.flag

    def free_for(self, tid):
        return self.flag

    def wait(self, timeout=None):
        run, tid = _CURRENT.run, _CURRENT.tid
        if run is None:
            return self.flag
        while not self.flag:
            run._yield(tid, ("event.wait", id(self)), waiting=self)
        return True


class _Cur(threading.local):
    run = None
    tid = None


_CURRENT = _Cur()


def shim_threading():
    """A stand-in for the `threading` module to inject into code executed from source."""
    real = threading
    ns = types.SimpleNamespace(**{k: getattr(real, k) for k in dir(real) if not k.startswith("__")})
    ns.Lock = lambda: ShimLock(False)
    ns.RLock = lambda: ShimLock(True)
    ns.Event = ShimEvent
    return ns


class Run:
    """One execution under a given choice prefix."""

    def __init__(self, bodies, target_codes, prefix, granularity="line"):
        self.bodies = bodies
        self.codes = set(target_codes)
        self.prefix = list(prefix)
        self.gran = granularity
        self.n = len(bodies)
        self.sems = [threading.Semaphore(0) for _ in range(self.n)]
        self.main = threading.Semaphore(0)
        self.done = [False] * self.n
        self.waiting = [None] * self.n
        self.results = [None] * self.n
        self.errors = [None] * self.n
        self.points = []      # (enabled tuple, running_still_enabled)
        self.choices = []
        self.current = None
        self.trace = []
        self.deadlock = False

    def _yield(self, tid, label, waiting=None):
        self.trace.append((tid, label))
        self.waiting[tid] = waiting
        self.main.release()
        self.sems[tid].acquire()
        self.waiting[tid] = None

    def _tracer(self, tid):
        def local(frame, event, arg):
            if event == "opcode" and self.gran == "opcode":
                self._yield(tid, (frame.f_code.co_name, frame.f_lasti))
            elif event == "line" and self.gran == "line":
                self._yield(tid, (frame.f_code.co_name, frame.f_lineno))
            return local

        def glob(frame, event, arg):
            if frame.f_code in self.codes:
                frame.f_trace_opcodes = self.gran == "opcode"
                frame.f_trace_lines = self.gran == "line"
                return local
            return None
        return glob

    def _worker(self, tid):
        self.sems[tid].acquire()
        _CURRENT.run, _CURRENT.tid = self, tid
        sys.settrace(self._tracer(tid))
        try:
            self.results[tid] = self.bodies[tid]()
        except BaseException as e:  # noqa: BLE001 - recorded as an observation
            self.errors[tid] = e
        finally:
            sys.settrace(None)
            _CURRENT.run = None
            self.done[tid] = True
            self.main.release()

    def _enabled(self):
        en = []
        for i in range(self.n):
            if self.done[i]:
                continue
            w = self.waiting[i]
            if w is not None and not w.free_for(i):
                continue
            en.append(i)
        return en

    def run(self):
        ths = [threading.Thread(target=self._worker, args=(i,), daemon=True) for i in range(self.n)]
        for t in ths:
            t.start()
        step = 0
        while True:
            if all(self.done):
                break
            enabled = self._enabled()
            if not enabled:
                self.deadlock = True
                break
            running_enabled = self.current in enabled
            if running_enabled:
                enabled = [self.current] + [i for i in enabled if i != self.current]
            k = self.prefix[step] if step < len(self.prefix) else 0
            if k >= len(enabled):
                raise ReplayDivergence(f"step {step}: choice {k} but only {len(enabled)} enabled")
            self.points.append((tuple(enabled), running_enabled))
            self.choices.append(k)
            self.current = enabled[k]
            self.sems[self.current].release()
            self.main.acquire()
            step += 1
        if not self.deadlock:
            for t in ths:
                t.join()
        return self


def preemptions_before(points, choices, upto):
    c = 0
    for i in range(upto):
        _, running_enabled = points[i]
        if running_enabled and choices[i] != 0:
            c += 1
    return c


def explore(make_bodies, codes, bound, granularity="line", check=None, root=(), max_execs=None):
    """Enumerate every schedule with at most `bound` preemptions (bound=None: all schedules).

    make_bodies() -> (bodies, ctx) builds fresh state for one execution.
    check(run, ctx) -> (outcome_label, violation_message_or_None)
    Returns dict(executions, outcomes, violations=[(choices, msg)], max_points, capped).
    """
    execs = 0
    outcomes = {}
    violations = []
    max_points = 0
    stack = [list(root)]
    capped = False
    while stack:
        if max_execs is not None and execs >= max_execs:
            capped = True
            break
        prefix = stack.pop()
        bodies, ctx = make_bodies()
        r = Run(bodies, codes, prefix, granularity).run()
        execs += 1
        max_points = max(max_points, len(r.points))
        label, msg = check(r, ctx)
        outcomes[label] = outcomes.get(label, 0) + 1
        if msg:
            violations.append((list(r.choices), msg))
        for i in range(len(prefix), len(r.points)):
            en, running_enabled = r.points[i]
            cost = preemptions_before(r.points, r.choices, i)
            for alt in range(1, len(en)):
                c = cost + (1 if running_enabled else 0)
                if bound is not None and c > bound:
                    continue
                stack.append(r.choices[:i] + [alt])
    return {"executions": execs, "outcomes": outcomes, "violations": violations, "max_points": max_points, "capped": capped}


def replay_twice(make_bodies, codes, choices, granularity, observe):
    """Replay one schedule twice; identical observations are required before a failure is trusted."""
    obs = []
    for _ in range(2):
        bodies, ctx = make_bodies()
        r = Run(bodies, codes, choices, granularity).run()
        obs.append(observe(r, ctx))
    if obs[0] != obs[1]:
        raise ReplayDivergence(f"non-deterministic replay: {obs[0]!r} vs {obs[1]!r}")
    return obs[0]


def code_objects(code):
    """All code objects nested in a module / function code object."""
    out = [code]
    for c in code.co_consts:
        if isinstance(c, types.CodeType):
            out += code_objects(c)
    return out


# ----------------------------------------------------------------------------------------------- self test
def selftest():
    """The explorer must find the classic lost update with 1 preemption and none with 0."""
    src = (
        "def bump(box):\n"
        "    v = box[0]\n"
        "    v = v + 1\n"
        "    box[0] = v\n"
    )
    code = compile(src, "<selftest>", "exec")
    ns = {}
    exec(code, ns)
    codes = code_objects(code)

    def make():
        box = [0]
        return [lambda: ns["bump"](box), lambda: ns["bump"](box)], box

    def check(r, box):
        return box[0], (None if box[0] == 2 else f"lost update: {box[0]}")

    r0 = explore(make, codes, 0, "line", check)
    r1 = explore(make, codes, 1, "line", check)
    assert not r0["violations"], r0
    assert r1["violations"], "explorer failed to find the lost update with one preemption"
    ch, _ = r1["violations"][0]
    assert replay_twice(make, codes, ch, "line", lambda r, box: box[0]) == 1
    # cooperative lock: the same race protected by a ShimLock has no violation and no deadlock
    lock_src = (
        "def bump(box, lock):\n"
        "    with lock:\n"
        "        v = box[0]\n"
        "        v = v + 1\n"
        "        box[0] = v\n"
    )
    code2 = compile(lock_src, "<selftest2>", "exec")
    ns2 = {}
    exec(code2, ns2)

    def make2():
        box, lock = [0], ShimLock()
        return [lambda: ns2["bump"](box, lock), lambda: ns2["bump"](box, lock)], box

    r2 = explore(make2, code_objects(code2), 2, "line", lambda r, box: (box[0] if not r.deadlock else "deadlock", None if box[0] == 2 and not r.deadlock else "bad"))
    assert not r2["violations"], r2
    # a try-lock must be able to fail: "skip the update when the lock is busy" loses updates in some schedule
    try_src = (
        "def bump(box, lock):\n"
        "    if lock.acquire(blocking=False):\n"
        "        v = box[0]\n"
        "        v = v + 1\n"
        "        box[0] = v\n"
        "        lock.release()\n"
    )
    code3 = compile(try_src, "<selftest3>", "exec")
    ns3 = {}
    exec(code3, ns3)

    def make3():
        box, lock = [0], ShimLock()
        return [lambda: ns3["bump"](box, lock), lambda: ns3["bump"](box, lock)], box

    r3 = explore(make3, code_objects(code3), 1, "line", lambda r, box: (box[0], None if box[0] == 2 else "skipped"))
    assert r3["violations"], "a failing try-lock was never observed"
    return True

"""CLI: python -m vf.run <ID> quick|thorough | <ID> --replay FILE | --selftest"""
from __future__ import annotations

import importlib
import json
import os
import sys
import traceback

from . import core


def _load(pid):
    return importlib.import_module(f"vf.checks.{pid.lower()}")


def _size(v):
    return len(json.dumps(v["case"]))


def run_check(pid, tier):
    seed = int(os.environ.get("VERIF_SEED", "0") or 0)
    mod = _load(pid)
    ctx = core.Ctx(pid, tier, seed)
    ctx.level = getattr(mod, "LEVEL", "exploration")
    ctx.rule = getattr(mod, "RULE", "")
    for a in getattr(mod, "ASSUMPTIONS", []):
        ctx.assume(a)
    try:
        mod.run(ctx)
    except Exception as e:
        if not core.raised_in_repo(e) or isinstance(e, RuntimeError) and "worker failed" in str(e):
            raise
        ctx.violation("unexpected_exception", {"exception": type(e).__name__}, {"kind": "__task__", "task": "main"},
                      f"hdc-algo raised {type(e).__name__}: {e} during the exploration\n" + core.short_tb(e))
    findings = core.load_findings()
    dump = os.environ.get("VERIF_DUMP_VIOLATIONS")
    if dump:
        with open(dump, "w") as fh:
            json.dump(ctx.violations, fh, indent=1)
    viols = sorted(ctx.violations, key=_size)
    unmatched, known = [], {}
    for v in viols:
        f = core.match_finding(pid, v, findings)
        if f is None:
            unmatched.append(v)
        else:
            known.setdefault(json.dumps(f, sort_keys=True), (f, 0))
            f0, c = known[json.dumps(f, sort_keys=True)]
            known[json.dumps(f, sort_keys=True)] = (f0, c + 1)
    # listed findings that this tier's bounds did not reach are replayed individually
    if hasattr(mod, "replay_finding"):
        for f in findings.get("findings", []):
            if f.get("property") != pid or json.dumps(f, sort_keys=True) in known:
                continue
            pp = core.Partial()
            try:
                mod.replay_finding(f, pp)
            except Exception as e:  # pragma: no cover
                sys.stderr.write(f"[verif] could not replay listed finding {f.get('match')}: {e}\n")
                continue
            hits = [v for v in pp.violations if core.match_finding(pid, v, {"findings": [f]})]
            others = [v for v in pp.violations if not core.match_finding(pid, v, findings)]
            if hits:
                known[json.dumps(f, sort_keys=True)] = (f, len(hits))
            else:
                print(f"NOTE: listed finding does not reproduce on this tree: {f.get('what','')}")
            unmatched.extend(others)
    # violations beyond the kept list are by construction not matched individually
    overflow = ctx.nviol - len(ctx.violations)
    for f, c in known.values():
        print(f"KNOWN-FINDING: property={pid} {f.get('what','')} (matched {c} case(s) this run)")
    n_unmatched = len(unmatched) + max(0, overflow)
    core.write_evidence(ctx, n_unmatched, sum(c for _, c in known.values()))
    if unmatched:
        # clear stale replays of this property
        d = os.path.join(core.REPLAY_DIR, pid)
        if os.path.isdir(d):
            for fn in os.listdir(d):
                try:
                    os.remove(os.path.join(d, fn))
                except OSError:
                    pass
        for i, v in enumerate(unmatched[:10]):
            path = core.write_replay(pid, i, v, tier, seed)
            print(f"VIOLATION property={pid} replay={path}")
            print(f"  [{v['sub']}] {v['msg']}")
        print(f"{pid}: {n_unmatched} violation(s) in total ({tier}, seed {seed})")
        return 1
    tot_eval = sum(d.get("evaluations", 0) for d in ctx.subs.values())
    print(f"{pid}: OK ({tier}, seed {seed}) evaluations={tot_eval} "
          f"exhaustive={ctx.exhaustive} wall={core.time.time()-ctx.t0:.1f}s")
    return 0


def run_replay(pid, path):
    with open(path) as fh:
        doc = json.load(fh)
    mod = _load(pid)
    import hdc.algo  # noqa: F401 - registers the .hdc accessors (a replay may enter a check below its run())
    outs = []
    for _ in range(2):
        if doc["case"].get("kind") == "__task__":
            # no single-case replay for an unexpected exception: re-run the exploration it came from
            p = core.Ctx(pid, doc.get("tier", "quick"), int(doc.get("seed", 0)))
            mod.run(p)
            outs.append(sorted({(v["sub"], v["msg"].split("\n")[0]) for v in p.violations if v["sub"] == "unexpected_exception"}))
            continue
        p = core.Partial()
        mod.replay(doc["sub"], doc["case"], p)
        findings = core.load_findings()
        vs = [v for v in p.violations if core.match_finding(pid, v, findings) is None]
        # a replay that has to re-run a small family reports only the recorded case when it can identify it
        same = [v for v in vs if v["key"] and v["key"] == doc.get("key")]
        if same:
            vs = same
        outs.append([(v["sub"], v["msg"]) for v in vs])
    if outs[0] != outs[1]:
        print(f"HARNESS-ERROR: replay of {path} is not deterministic: {outs}")
        return 2
    if outs[0]:
        for s, m in outs[0]:
            print(f"VIOLATION property={pid} replay={path}")
            print(f"  [{s}] {m}")
        return 1
    print(f"{pid}: replay passes (no violation on this tree)")
    return 0


def main(argv):
    if not argv:
        print(__doc__)
        return 2
    if argv[0] == "--selftest":
        from . import selftest
        return selftest.main()
    pid = argv[0].upper()
    try:
        if len(argv) >= 3 and argv[1] == "--replay":
            return run_replay(pid, argv[2])
        tier = argv[1] if len(argv) > 1 else os.environ.get("VERIF_TIER", "quick")
        if tier not in ("quick", "thorough"):
            print("tier must be quick or thorough")
            return 2
        return run_check(pid, tier)
    except SystemExit:
        raise
    except BaseException:
        traceback.print_exc()
        print(f"HARNESS-ERROR: {pid} could not be decided (see traceback)")
        return 2


if __name__ == "__main__":
    sys.exit(main(sys.argv[1:]))

"""Attribute histories on ONE xarray object.

The `.hdc` accessor object is cached by xarray on the DataArray it was first used on, so anything the accessor
(or a helper it owns) remembers between calls survives in-place edits of `attrs`.  A result must be a function of
the object's *current* data and attributes.  `explore` enumerates every history of attribute settings up to a
depth on one long-lived object, calls the operation after every step and compares with the same operation on a
freshly built object that has the same data and the same attributes (differential oracle, no expected values).
"""
from __future__ import annotations

import itertools
import warnings

ABSENT = "<absent>"


def _set(da, name, v):
    if v == ABSENT:
        da.attrs.pop(name, None)
    else:
        da.attrs[name] = v


def explore(make, name, values, op, same, depth, p, sub, what, first_only_fresh=False):
    """make() -> fresh DataArray without the attribute; op(da) -> result or raises; same(a, b) -> bool.

    Every sequence v1..vk (k <= depth) over `values`: one object, after each setting op(obj) must equal (or raise
    like) op(fresh object with that setting).  Returns the number of histories."""
    fresh = {}

    def run(da):
        with warnings.catch_warnings():
            warnings.simplefilter("ignore")
            try:
                return ("ok", op(da))
            except Exception as e:  # noqa: BLE001 - the kind of failure is part of the observation
                return ("raise", type(e).__name__)

    for v in values:
        da = make()
        _set(da, name, v)
        fresh[v] = run(da)
    hist = 0
    for k in range(1, depth + 1):
        for seq in itertools.product(values, repeat=k):
            if k > 1 and any(a == b for a, b in zip(seq, seq[1:])):
                continue                       # a repeated setting is a no-op step
            da = make()
            hist += 1
            bad = None
            for step, v in enumerate(seq):
                _set(da, name, v)
                for rep in range(2):          # the operation twice per step: a call must not consume / alter the attribute
                    got = run(da)
                    exp = fresh[v]
                    ok = got[0] == exp[0] and (same(got[1], exp[1]) if got[0] == "ok" else got[1] == exp[1])
                    p.count(sub, evaluations=1, states=1, transitions=1, nontrivial=int(step > 0 or rep > 0))
                    if not ok:
                        bad = step
                        break
                    if v != ABSENT and da.attrs.get(name) != v or v == ABSENT and name in da.attrs:
                        ok = False
                        bad = step
                        break
                if bad is not None:
                    break
            if bad is not None:
                shown = [str(v) for v in seq[:bad + 1]]
                p.violation(sub, {"what": what, "attr": name, "history": shown}, {"kind": "attr_history", "what": what, "history": shown},
                            f"{what}: on one object, after setting attrs[{name!r}] through the history {shown} (operation called after every step) the "
                            f"result differs from the same call on a fresh object with attrs[{name!r}] = {shown[-1]}")
    return hist


def selftest():
    """The explorer must flag an object that remembers the first attribute value it saw, and accept one that reads
    the attribute on every call."""
    from . import core

    class Obj:
        def __init__(self):
            self.attrs = {}
            self.memo = None

    def stale(o):
        if o.memo is None:
            o.memo = o.attrs.get("nodata", -1)
        return o.memo

    def fresh_read(o):
        return o.attrs.get("nodata", -1)

    p = core.Partial()
    explore(Obj, "nodata", [ABSENT, 0, 7], stale, lambda a, b: a == b, 2, p, "t", "stale")
    assert p.violations, "attribute-history explorer failed to flag a remembered attribute"
    assert all(len(v["key"]["history"]) == 2 for v in p.violations)      # needs a second step
    q = core.Partial()
    n = explore(Obj, "nodata", [ABSENT, 0, 7], fresh_read, lambda a, b: a == b, 3, q, "t", "fresh")
    assert not q.violations and n == 3 + 6 + 12
    return True

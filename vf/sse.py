"""Small-scope exhaustive enumeration helpers (alphabets, words, tries, products)."""
from __future__ import annotations

import itertools
import random

import numpy as np


def word_indices(k, n):
    """All k**n words of length n over symbols 0..k-1, lexicographic (last symbol fastest).

    Row i has parent row i // k among the words of length n-1 (its prefix), which is what
    makes the stacked arrays a trie: edge (parent -> child) appends symbol i % k.
    """
    if n == 0:
        return np.zeros((1, 0), dtype=np.int8)
    grids = np.indices((k,) * n, dtype=np.int8)
    return grids.reshape(n, -1).T.copy()


def render(idx, values, dtype=None):
    """Map symbol indices to concrete values."""
    vals = np.asarray(values)
    out = vals[idx]
    if dtype is not None:
        out = out.astype(dtype)
    return out


def word_str(idx_row, names):
    return "".join(f"[{names[i]}]" for i in idx_row)


def compositions(total):
    """All ordered compositions of an integer (chunkings of an axis)."""
    for bits in itertools.product([0, 1], repeat=total - 1):
        parts, cur = [], 1
        for b in bits:
            if b:
                parts.append(cur)
                cur = 1
            else:
                cur += 1
        parts.append(cur)
        yield tuple(parts)


def set_partitions_labelings(n, maxk):
    """All labelings of n positions with labels 0..k-1 in restricted-growth form
    (label of first occurrence increases), k <= maxk: one per set partition."""
    def rec(prefix, m):
        if len(prefix) == n:
            yield tuple(prefix)
            return
        for lab in range(min(m + 1, maxk)):
            yield from rec(prefix + [lab], max(m, lab + 1))
    yield from rec([], 0)


def surjective_labelings(n, k):
    """All maps positions -> 0..k-1 hitting every label."""
    for lab in itertools.product(range(k), repeat=n):
        if len(set(lab)) == k:
            yield lab


def seeded_rng(seed, salt=""):
    return random.Random(f"{seed}:{salt}")


def chunked(seq, size):
    seq = list(seq)
    for i in range(0, len(seq), size):
        yield seq[i:i + size]

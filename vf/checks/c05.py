"""C05 — GCV selection is optimal on the grid; robust mode never degenerates.

Bounded exhaustive product: words over {ND, lo, mid, hi} with >= 5 valid cells (length 5..8), the
flat-with-spikes alphabet {0,5,50}^8, constants and exact lines with every gap pattern x sranges x
robust x p.  Non-robust oracle: lopt is a grid value and minimises the GCV score from its definition
(union of the arg-min sets under the eigenvalue approximation of trH and the exact hat-matrix trace,
each with float error bounds); band = fixed-lambda smoother at lopt (bit-exact).  Robust oracle: only
what the statement fixes - grid lambda, finite, constants and lines reproduced (gaps filled on the
line), not zeroed, inside the widened data hull, invariant under the placeholder encoding.
"""
from __future__ import annotations

import itertools

import numpy as np

from .. import sse
from ..oracle import select
from . import whit_common as wc

LEVEL = "exploration"
RULE = ("words (>=5 valid) x sranges x robust x p; non-trivial = non-robust case whose GCV arg-min is unique under "
        "at least one trace definition, or robust case on a degenerate residual distribution (constant, linear, "
        "flat-with-spikes); distinct = (word, srange, robust, p)")
ASSUMPTIONS = [
    "the statement fixes the selection rule, not how trH is obtained: a reported lambda is accepted when it is an "
    "arg-min (within float error bounds) under the eigenvalue approximation or under the exact hat-matrix trace",
    "robust mode: the bisquare constants, number of passes and leverage correction are not pinned by the property; "
    "only grid membership, finiteness, reproduction of constants/lines, non-zeroing, the hull bound and placeholder "
    "invariance are demanded",
]

DEFAULT = np.arange(-1.8, 4.2, 0.2)


def sranges(thorough):
    out = [np.arange(-2.0, 2.0), np.arange(-2.0, 1.2, 0.2), DEFAULT, np.array([0.0, 2.0]), np.array([-1.0, 1.0]),
           -3.0 + 0.5 * np.arange(8)]
    if thorough:
        for s0 in (-3.0, -2.0, 0.0, 1.0):
            for st in (0.1, 0.5, 1.0):
                for c in (2, 3, 5, 16, 40):
                    if s0 + st * (c - 1) <= 6.0:
                        out.append(s0 + st * np.arange(c))
    return out


def k_of_grid(lopt, srange):
    g = 10.0 ** np.asarray(srange, dtype=np.float64)
    rel = np.abs(lopt[:, None] - g[None, :]) / g[None, :]
    k = rel.argmin(axis=1)
    ok = rel[np.arange(len(lopt)), k] <= 1e-12
    return np.where(ok, k, -1)


def check_batch(y, valid, nd, srange, robust, p_env, p, family="words"):
    variant = "ws2dwcv" if p_env is None else "ws2dwcvp"
    sub = ("gcv" if not robust else "robust") + ("_asym" if p_env is not None else "")
    N, n = y.shape
    case = lambda j: {"kind": "gcv", "y": y[j].tolist(), "nd": nd, "srange": np.asarray(srange).tolist(),
                      "robust": bool(robust), "p": p_env, "family": family}
    key = lambda j: {"variant": variant, "y": y[j].tolist(), "srange": [float(srange[0]), len(srange)], "robust": bool(robust), "p": p_env}
    try:
        out, lopt = wc.call_variant(variant, y, nd, p=p_env, srange=srange, robust=robust)
    except Exception as e:
        culprit = 0
        for j in range(N):
            try:
                wc.call_variant(variant, y[j:j + 1], nd, p=p_env, srange=srange, robust=robust)
            except Exception:
                culprit = j
                break
        p.violation(sub, key(culprit), case(culprit), f"{variant}(robust={robust}) raised {type(e).__name__}: {e} for y={y[culprit].tolist()}")
        return
    p.count(sub, evaluations=N)
    k = k_of_grid(lopt, srange)
    for j in np.nonzero(k < 0)[0][:3]:
        p.violation(sub, key(j), case(j),
                    f"{variant}(robust={robust}): reported lambda {float(lopt[j])!r} is not a value of 10**srange "
                    f"{np.asarray(srange).tolist()} for y={y[j].tolist()}")
    yv = np.where(valid, y, np.nan)
    # Optimality conditions of a weighted Whittaker curve at the reported lambda, whatever the weights w in [0,1]
    # (validity x robust x asymmetric) are:  lambda (D'D z)_i = w_i (y_i - z_i).  Hence at valid cells the fourth
    # difference has the sign of the residual and lambda |D'D z|_i <= |y_i - z_i|; at missing cells it vanishes.
    # The int16 band is within 0.5 of z, which gives the slack terms.
    from ..oracle import pls as _pls
    P = _pls.dtd(n).astype(np.float64)
    slack = 0.5 * np.abs(P).sum(axis=1) + 1e-6
    c4 = out.astype(np.float64) @ P.T
    res = np.where(valid, y - out, 0.0)
    lam_col = lopt[:, None]
    big_pos = c4 > slack[None, :]
    big_neg = c4 < -slack[None, :]
    enough5 = (valid.sum(axis=1) >= 5)[:, None] & (lopt > 0)[:, None]
    kkt_bad = enough5 & (
        (~valid & (big_pos | big_neg))
        | (valid & big_pos & (res < -0.5 - 1e-6))
        | (valid & big_neg & (res > 0.5 + 1e-6))
        | (valid & (lam_col * (np.abs(c4) - slack[None, :]) > (np.abs(res) + 0.5) * (1 + 1e-9) + 1e-6))
    )
    p.count("optimality_conditions", evaluations=N, nontrivial=int(enough5.any(axis=1).sum()))
    for j in np.nonzero(kkt_bad.any(axis=1))[0][:3]:
        i = int(np.nonzero(kkt_bad[j])[0][0])
        p.violation("optimality_conditions", key(j), case(j),
                    f"{variant}(robust={robust}): band {out[j].tolist()} at lambda {float(lopt[j])!r} cannot be a Whittaker curve of y={y[j].tolist()} with weights in [0,1] "
                    f"on the valid cells: at position {i} the fourth difference is {c4[j, i]:.2f} and the residual {res[j, i]:.1f}")
    if not robust:
        fixed = "ws2dgu" if p_env is None else "ws2dpgu"
        exp, _ = wc.call_variant(fixed, y, nd, lam=lopt, p=p_env)
        bad = (exp != out).any(axis=1)
        for j in np.nonzero(bad)[0][:3]:
            p.violation(sub, key(j), case(j),
                        f"{variant}: band {out[j].tolist()} is not {fixed} at the reported lambda {float(lopt[j])!r} ({exp[j].tolist()}) for y={y[j].tolist()}")
        res = select.gcv(y, valid, srange)
        adm = res["eig"][2] | res["exact"][2]
        uniq = (res["eig"][2].sum(axis=1) == 1) | (res["exact"][2].sum(axis=1) == 1)
        p.count(sub, nontrivial=int(uniq.sum()), ambiguous=int((adm.sum(axis=1) == adm.shape[1]).sum()))
        sel = k >= 0
        okk = np.zeros(N, bool)
        okk[sel] = adm[np.nonzero(sel)[0], k[sel]]
        for j in np.nonzero(sel & ~okk)[0][:3]:
            p.violation(sub, key(j), case(j),
                        f"{variant}: reported lambda 10**{np.log10(lopt[j]):.2f} does not minimise the GCV score for y={y[j].tolist()} "
                        f"srange={np.round(srange, 3).tolist()}; reference scores (eigenvalue trace) {np.round(res['eig'][0][j], 6).tolist()} "
                        f"admissible grid indices {np.nonzero(adm[j])[0].tolist()}")
    else:
        lo = np.nanmin(yv, axis=1)
        hi = np.nanmax(yv, axis=1)
        rng = hi - lo
        o = out.astype(np.float64)
        # A Whittaker curve with non-negative weights on valid cells satisfies sum w (y - z) = 0, so it can
        # lie neither strictly above nor strictly below all valid data; a zeroed or wrapped band does.
        above = np.where(valid, o - 0.5 > y, True).all(axis=1)
        below = np.where(valid, o + 0.5 < y, True).all(axis=1)
        for j in np.nonzero(above | below)[0][:3]:
            p.violation(sub, key(j), case(j),
                        f"{variant}(robust=True) band {out[j].tolist()} lies entirely {'above' if above[j] else 'below'} the valid data "
                        f"y={y[j].tolist()} (lambda {float(lopt[j])!r}): not a weighted least-squares curve of these data (zeroed / degenerate weights)")
        # sanity bound: no admissible curve leaves the data hull by more than 2n data ranges (catches wrapped garbage)
        wild = ((o < (lo - 2 * n * rng - 1)[:, None]).any(axis=1) | (o > (hi + 2 * n * rng + 1)[:, None]).any(axis=1)) & ~(above | below)
        for j in np.nonzero(wild)[0][:3]:
            p.violation(sub, key(j), case(j), f"{variant}(robust=True) band {out[j].tolist()} is wildly outside the data y={y[j].tolist()}")
        nontriv = 0
        if family in ("const", "line"):
            # exact constants / lines: reproduced at every cell, gaps filled on the same line
            t = np.arange(n)
            for j in range(N):
                tv = t[valid[j]]
                yvj = y[j][valid[j]]
                b = (yvj[-1] - yvj[0]) / (tv[-1] - tv[0])
                line = yvj[0] + b * (t - tv[0])
                if (line < wc.I16_MIN).any() or (line > wc.I16_MAX).any():
                    p.count(sub, excluded=1)
                    continue
                nontriv += 1
                if not np.array_equal(out[j], np.round(line).astype(np.int16)):
                    p.violation(sub, key(j), case(j),
                                f"{variant}(robust=True): the exactly linear series {y[j].tolist()} was returned as {out[j].tolist()} "
                                f"instead of the line {np.round(line).astype(int).tolist()}")
        elif family == "spikes":
            nontriv = N
        p.count(sub, nontrivial=nontriv)


def _task(task, p):
    kind, n, si, robust, p_env, letters, thorough = task
    srange = sranges(thorough)[si]
    nd = -3000.0
    if kind == "words":
        idx, valid = wc.words(n)
        y = wc.render(idx, letters, nd)
        sel = valid.sum(axis=1) >= 5
        check_batch(y[sel], valid[sel], nd, srange, robust, p_env, p, "words")
        if robust and (idx[sel] == 0).any():
            # robust results do not depend on the placeholder: every encoding of the missing cells (finite markers below /
            # inside / above the data, NaN, +-inf with a finite argument, and NaN / +-inf passed as the nodata argument itself)
            variant = "ws2dwcv" if p_env is None else "ws2dwcvp"
            isel = idx[sel]
            hasgap = (isel == 0).any(axis=1)
            base = None
            for enc in wc.ENCODINGS + wc.SELF_DECLARED:
                ye, nde = wc.encode(isel, letters, enc)
                try:
                    oe, le = wc.call_variant(variant, ye, nde, p=p_env, srange=srange, robust=True)
                except Exception as e:
                    p.violation("robust_placeholders", {"variant": variant, "enc": enc, "n": n, "p": p_env, "srange": [float(srange[0]), len(srange)]},
                                {"kind": "robust_placeholders", "n": n, "p": p_env, "si": si, "letters": list(letters), "thorough": thorough}, f"{variant}(robust=True) raised {type(e).__name__}: {e} with missing cells encoded as {enc}")
                    continue
                if base is None:
                    base = (oe, le, nde)
                    continue
                diff = ((oe != base[0]).any(axis=1) | ~(le == base[1])) & hasgap
                p.count("robust_placeholders", evaluations=int(hasgap.sum()), nontrivial=int(hasgap.sum()), states=int(hasgap.sum()))
                for j in np.nonzero(diff)[0][:3]:
                    p.violation("robust_placeholders", {"variant": variant, "enc": enc, "word": isel[j].tolist(), "p": p_env, "srange": [float(srange[0]), len(srange)]},
                                {"kind": "robust_placeholders", "n": n, "p": p_env, "si": si, "letters": list(letters), "thorough": thorough},
                                f"{variant}(robust=True, p={p_env}): word {isel[j].tolist()} over letters {list(letters)}: missing cells as {base[2]} -> {base[0][j].tolist()} "
                                f"lambda {float(base[1][j])!r}; encoded as {enc} (nodata argument {nde}) -> {oe[j].tolist()} lambda {float(le[j])!r}")
        if n == 6:
            p.sample(("gcv" if not robust else "robust") + ("_asym" if p_env is not None else ""),
                     {"word": y[sel][3].tolist(), "srange": [float(srange[0]), float(srange[-1]), len(srange)], "robust": robust, "p": p_env})
    elif kind == "spikes":
        idx = sse.word_indices(3, 8)
        y = np.array([0.0, 5.0, 50.0])[idx]
        valid = np.ones_like(y, bool)
        check_batch(y, valid, nd, srange, robust, p_env, p, "spikes")
        p.sample("robust", {"family": "flat-with-spikes {0,5,50}^8", "example": y[4000].tolist()})
    elif kind == "lines":
        ys, vs, fam = [], [], []
        for a, b in itertools.product((0, 5, 100, -7, 1000), (0, 1, 2, -3, -7)):
            t = np.arange(n)
            line = (a + b * t).astype(np.float64)
            for gaps in itertools.product([True, False], repeat=n):
                v = np.array(gaps)
                if v.sum() >= 5:
                    ys.append(np.where(v, line, nd))
                    vs.append(v)
        y = np.array(ys)
        valid = np.array(vs)
        check_batch(y, valid, nd, srange, robust, p_env, p, "line")
        p.sample("robust" if robust else "gcv", {"family": "a + b*t with every gap pattern leaving >=5 valid", "n": n, "example": y[-3].tolist()})


def accessor(ctx, letters):
    import pandas as pd
    import xarray as xr
    sub = "accessor"
    n = 6
    idx, valid = wc.words(n)
    N = idx.shape[0]
    nd = -3000
    y = wc.render(idx, letters, float(nd))
    time = pd.date_range("2001-01-01", periods=n, freq="10D")
    coords = {"time": time, "y": np.arange(64), "x": np.arange(64)}
    for name in (None, "ndvi"):
        da = xr.DataArray(y.astype("int16").reshape(64, 64, n), dims=("y", "x", "time"), coords=coords, name=name)
        for kwargs, variant, kk in (
            ({}, "ws2dwcv", dict(srange=DEFAULT, robust=True)),
            ({"robust": False}, "ws2dwcv", dict(srange=DEFAULT, robust=False)),
            ({"p": 0.9}, "ws2dwcvp", dict(srange=DEFAULT, robust=True, p=0.9)),
            ({"p": 0.5, "robust": False}, "ws2dwcvp", dict(srange=DEFAULT, robust=False, p=0.5)),   # p = 0.5 is still the asymmetric smoother (all weights 0.5)
            ({"p": 0.5}, "ws2dwcvp", dict(srange=DEFAULT, robust=True, p=0.5)),
            ({"p": 0.9, "robust": False, "srange": np.arange(-2.0, 2.0)}, "ws2dwcvp", dict(srange=np.arange(-2.0, 2.0), robust=False, p=0.9)),
        ):
            ds = da.hdc.whit.whitswcv(nodata=nd, **kwargs)
            out, lopt = wc.call_variant(variant, y, float(nd), **kk)
            bname = name or "band"
            msg = None
            ctx.count(sub, evaluations=N, nontrivial=N if name is None else 0)
            if set(ds.data_vars) != {bname, "sgrid"}:
                msg = f"dataset variables {sorted(ds.data_vars)}"
            elif not np.array_equal(ds[bname].transpose("y", "x", "time").values.reshape(N, n), out):
                msg = "band differs from the kernel called per pixel with the documented defaults (srange arange(-1.8,4.2,0.2), robust=True)"
            elif ds["sgrid"].dtype != np.float32:
                msg = f"sgrid dtype {ds['sgrid'].dtype}"
            else:
                with np.errstate(all="ignore"):
                    exp = np.log10(lopt).astype("float32")
                if not np.array_equal(ds["sgrid"].values.reshape(N), exp, equal_nan=True):
                    msg = "sgrid is not float32(log10(lopt))"
            if msg:
                ctx.violation(sub, {"call": "whitswcv", "kwargs": sorted(kwargs), "name": name}, {"kind": "acc"},
                              f"whitswcv({kwargs}) name={name}: {msg}")
    ctx.sample(sub, {"cube": "all 4096 words of length 6", "calls": ["default", "robust=False", "p=0.9", "p=0.9,robust=False,srange"]})


def long_optimality(ctx):
    """GCV optimality / robust sanity on longer series (n = 50..200) with gap layouts, default and custom grids."""
    from . import c04
    nd = -3000.0
    fam = c04.long_series_family()
    names = list(fam)
    for n in (50, 120, 200):
        sel = [k for k in names if f"_{n}_" in k]
        Y = np.array([fam[k][0] for k in sel])
        V = np.array([fam[k][1] for k in sel])
        for srange in (DEFAULT, np.arange(-2.0, 2.0), np.arange(-1.0, 4.5, 0.5)):
            for robust in (False, True):
                for p_env in (None, 0.8):
                    check_batch(Y, V, nd, srange, robust, p_env, ctx, "long")
    ctx.sample("gcv", {"long_family": names[:6], "lengths": [50, 120, 200]})


def _robust_level_task(task, p):
    """The robust weights come from the residuals of the VALID cells: whatever stands in for a missing cell inside the
    kernel has no residual.  Observable without re-implementing the reweighting: shifting the level of the data (and
    of the marker) by a constant changes no residual, so the band moves by exactly that constant - on every word with
    gaps, for both robust kernels (ties of the criterion are decided by the C06 machinery)."""
    from . import c06
    n, lo, hi = task
    letters = wc.letters_for(0)           # robust variants: seed-independent alphabet (see C06)
    idx, _ = wc.words(n)
    idx = idx[lo:hi]
    valid = idx != 0
    keep = (~valid).any(axis=1) & (valid.sum(axis=1) >= 5)
    idx, valid = idx[keep], valid[keep]
    if not len(idx):
        return
    nd = -3000.0
    yA = wc.render(idx, letters, nd)
    for variant, params in (("ws2dwcv", dict(srange="a", robust=True)), ("ws2dwcvp", dict(srange="a", robust=True, p=0.8))):
        for c in (-7000, 500):
            c06.compare(variant, params, yA, nd, yA + c, nd + c, lambda o, c=c: o - c, valid, f"level shift {c}", p, "robust_level_shift")
    p.count("robust_level_shift", nontrivial=len(idx))


def run(ctx):
    wc.compile_all()
    letters = wc.letters_for(ctx.seed)
    thorough = ctx.thorough()
    maxn = 8 if thorough else 7
    nsr = len(sranges(thorough))
    tasks = []
    for si in range(nsr):
        for robust in (False, True):
            for p_env in (None, 0.2, 0.8):
                for n in range(maxn, 4, -1):
                    tasks.append(("words", n, si, robust, p_env, letters, thorough))
                if si < 6:
                    tasks.append(("spikes", 8, si, robust, p_env, letters, thorough))
                    for n in (5, 6, 7, 8):
                        tasks.append(("lines", n, si, robust, p_env, letters, thorough))
    tasks.sort(key=lambda t: -(4 ** t[1]) * len(sranges(thorough)[t[2]]))
    ctx.pmap(_task, tasks)
    ctx.note("letters", letters)
    ctx.note("sranges", [[float(s[0]), float(s[-1]), len(s)] for s in sranges(thorough)])
    accessor(ctx, letters)
    long_optimality(ctx)
    ctx.pmap(_robust_level_task, [(n, lo, min(4 ** n, lo + 2048)) for n in (6, 7) for lo in range(0, 4 ** n, 2048)])
    from . import spell_common
    spell_common.run(ctx, "C05")



def replay(sub, case, p):
    if case.get("kind") == "spelling":
        from . import spell_common
        spell_common.run(p, "C05")
        return
    if case["kind"] == "robust_placeholders":
        _task(("words", case["n"], case["si"], True, case["p"], tuple(case["letters"]), case["thorough"]), p)
        return
    if case["kind"] == "gcv":
        y = np.asarray([case["y"]], dtype=np.float64)
        valid = y != case["nd"]
        check_batch(y, valid, case["nd"], np.asarray(case["srange"]), case["robust"], case["p"], p, case.get("family", "words"))
    else:
        accessor(p, wc.letters_for(0))

"""C12 — results do not depend on laziness, chunking, layout or threading.

Model checking of schedules and configurations, always against the eager in-memory / sequential result:
(a) LAZY     every interleaving (preemption-bounded at bytecode granularity, unbounded at line granularity) of 2-3
             threads racing on the first call of a lazily compiled kernel - the real `lazycompile` source with a
             counting stub decorator, then with real Numba decorators and the real kernels;
(b) DASKSCHED task orders of the dask graph of every accessor operation under a controlled scheduler (every
             relative order of the kernel tasks, and every schedule with a bounded number of deviations);
(c) CONFIG   every chunking of (y, x) x dimension orders x schedulers / worker counts; every chunking of the time
             axis (must raise or equal eager); every permutation of the pixels of a 2x3 grid;
(d) THREADS  the compiled prange kernel under 1..16 threads (fresh process);
(e) VPRANGE  source-level interleavings of the prange body (one cooperative thread per row).
"""
from __future__ import annotations

import importlib
import itertools
import os
import pickle
import subprocess
import sys
import tempfile
import warnings

import numpy as np

from .. import core, sse
from ..sched import daskget, threads, vprange

LEVEL = "model_checking"
RULE = ("states = schedule prefixes / configurations explored, transitions = scheduling decisions taken; non-trivial = "
        "schedule with at least one preemption or deviation, or a configuration with more than one chunk")
ASSUMPTIONS = [
    "interleavings inside native code (GIL-free gufunc loops run by dask worker threads, Numba's threading layer) cannot be "
    "controlled from Python: (c)/(d) enumerate configurations there, (e) explores the source-level semantics of the prange body",
    "Numba freezes module globals as constants, so the only mutable state kernels can share is what the caller passes in",
]


# =============================================================================================== (a) LAZY
def helper_source():
    repo = os.environ.get("VERIF_REPO_DIR", "/repo")
    path = os.path.join(repo, "hdc", "algo", "ops", "_helper.py")
    with open(path) as fh:
        return fh.read(), path


def exec_helper():
    """Execute _helper.py from source in a fresh namespace whose `threading` is scheduler-aware."""
    src, path = helper_source()
    code = compile(src, path, "exec")
    shim = threads.shim_threading()
    import builtins
    real_import = builtins.__import__

    def imp(name, globals=None, locals=None, fromlist=(), level=0):
        if name == "threading":
            return shim
        return real_import(name, globals, locals, fromlist, level)
    b = dict(vars(builtins))
    b["__import__"] = imp
    ns = {"__name__": "hdc_algo_helper_under_test", "__builtins__": b}
    exec(code, ns)
    return ns, threads.code_objects(code)


def lazy_stub(ctx):
    """The real lazycompile wrapper around a counting stub decorator."""
    ns, codes = exec_helper()
    sub = "lazy_stub"

    def mk(nthreads):
        def make():
            st = {"compiles": 0}

            def deco(f):
                st["compiles"] += 1

                def compiled(*a, **k):
                    return ("r", f(*a, **k))
                return compiled
            w = ns["lazycompile"](deco)(lambda x: x * 2)
            return [(lambda i=i: w(i + 1)) for i in range(nthreads)], st
        return make

    def mk_check(nthreads):
        exp = [("r", (i + 1) * 2) for i in range(nthreads)]

        def check(r, st):
            errs = [type(e).__name__ for e in r.errors if e is not None]
            ok = not errs and list(r.results) == exp and not r.deadlock
            label = f"compiles={st['compiles']}" + ("" if ok else " WRONG")
            msg = None
            if r.deadlock:
                msg = "deadlock: no thread can run and not all have finished"
            elif errs:
                msg = f"a thread raised {errs}"
            elif list(r.results) != exp:
                msg = f"results {r.results} != sequential {exp}"
            return label, msg
        return check

    plans = [(2, "line", None), (3, "line", None if ctx.thorough() else 3), (2, "opcode", 3 if ctx.thorough() else 2), (3, "opcode", 2 if ctx.thorough() else 1)]
    for nth, gran, bound in plans:
        res = threads.explore(mk(nth), codes, bound, gran, mk_check(nth))
        ctx.count(sub, evaluations=res["executions"], states=res["executions"], transitions=res["executions"] * res["max_points"],
                  traces_validated_against_impl=res["executions"], nontrivial=max(0, res["executions"] - 1))
        ctx.note(f"lazy_stub_{nth}threads_{gran}", {"bound": "all" if bound is None else bound, "executions": res["executions"], "outcomes": res["outcomes"],
                                                     "scheduling_points": res["max_points"]})
        for choices, msg in res["violations"][:3]:
            threads.replay_twice(mk(nth), codes, choices, gran, lambda r, st: (tuple(map(repr, r.results)), st["compiles"], r.deadlock))
            ctx.violation(sub, {"threads": nth, "granularity": gran, "schedule": choices}, {"kind": "lazy_stub", "threads": nth, "granularity": gran, "schedule": choices},
                          f"lazycompile with {nth} threads ({gran} granularity), schedule {choices}: {msg}")
    ctx.sample(sub, {"threads": [2, 3], "granularities": ["line", "opcode"], "decorator": "counting stub"})


def lazy_kernels():
    """The 18 lazily compiled objects with two argument tuples each (distinct arguments per thread)."""
    import hdc.algo  # noqa: F401
    ops = importlib.import_module("hdc.algo.ops")
    st = importlib.import_module("hdc.algo.ops.stats")
    zm = importlib.import_module("hdc.algo.ops.zonal")
    plc = importlib.import_module("hdc.algo.ops.ws2doptvplc")
    ac = importlib.import_module("hdc.algo.ops.autocorr")
    y1 = np.array([10.0, 30.0, 20.0, 50.0, 40.0, 70.0])
    y2 = np.array([5.0, -3000.0, 25.0, 20.0, 60.0, 55.0])
    sr = np.arange(-1.0, 1.5, 0.5)
    g = np.array([0, 1, 0, 1, 0, 1], dtype="int16")
    ci = np.array([[0, 3], [0, 3]], dtype="int16")
    K = {
        "lroo": (ops.lroo, [(np.array([1, 1, 0, 1, 1, 1], "uint8"),), (np.array([0, 1, 1, 0, 0, 0], "uint8"),)]),
        "autocorr": (ac.autocorr, [(np.arange(12.0).reshape(1, 2, 6) ** 1.5,), (np.cos(np.arange(12.0)).reshape(2, 1, 6),)]),
        "autocorr_tyx": (ac.autocorr_tyx, [(np.arange(12.0).reshape(6, 1, 2) ** 1.5,), (np.cos(np.arange(12.0)).reshape(6, 2, 1),)]),
        "rolling_sum": (st.rolling_sum, [(y1.astype("int16"), 2, -3000), (y2.astype("int16"), 3, -3000)]),
        "mean_grp": (st.mean_grp, [(y1.astype("int16"), g, 2, -3000), (y2.astype("int16"), g, 2, -3000)]),
        "do_mean": (zm.do_mean, [(y1.astype("int16").reshape(1, 2, 3), np.array([[0, 1, 0], [1, 1, 0]], "int16"), 2, -3000, 255),
                                 (y2.astype("int16").reshape(1, 3, 2), np.array([[0, 0], [1, 255], [1, 0]], "int16"), 2, -3000, 255)]),
        "ws2dgu": (ops.ws2dgu, [(y1, 10.0, -3000.0), (y2, 1.0, -3000.0)]),
        "ws2dpgu": (ops.ws2dpgu, [(y1, 10.0, -3000.0, 0.9), (y2, 1.0, -3000.0, 0.1)]),
        "tinterpolate": (ops.tinterpolate, [(np.array([3, 9], "int16"), np.array([1.0, 0, 0, 1]), np.array([0, 0, 1, 1], "int32"), np.zeros(2, "u1")),
                                            (np.array([7, 1, 4], "int16"), np.array([1.0, 0, 1, 0, 1]), np.array([0, 0, 0, 1, 1], "int32"), np.zeros(2, "u1"))]),
        "_mann_kendall_trend_gu": (st._mann_kendall_trend_gu, [(y1.astype("int16"),), (y2.astype("float32"),)]),
        "_mann_kendall_trend_gu_nd": (st._mann_kendall_trend_gu_nd, [(y1.astype("int16"), -3000.0), (y2.astype("int16"), -3000.0)]),
        "gammastd_grp": (st.gammastd_grp, [(y1.astype("int16"), g, 2, -3000, ci), (np.abs(y2).astype("int16") % 50, g, 2, -3000, ci)]),
        "ws2doptv": (ops.ws2doptv, [(y1, -3000.0, sr), (y2, -3000.0, sr)]),
        "ws2doptvp": (ops.ws2doptvp, [(y1, -3000.0, 0.9, sr), (y2, -3000.0, 0.1, sr)]),
        "ws2doptvplc": (ops.ws2doptvplc, [(y1.astype("int16"), -3000.0, 0.9, 0.7), (y2.astype("int16"), -3000.0, 0.9, 0.2)]),
        "ws2dwcv": (ops.ws2dwcv, [(y1, -3000.0, sr, True), (y2, -3000.0, sr, False)]),
        "ws2dwcvp": (ops.ws2dwcvp, [(y1, -3000.0, 0.9, sr, True), (y2, -3000.0, 0.1, sr, False)]),
        "ws2doptvplc_tyx": (plc.ws2doptvplc_tyx, [(y1.astype("int16").reshape(6, 1, 1), 0.9, -3000), (y2.astype("int16").reshape(6, 1, 1), 0.9, -3000)]),
    }
    return K


def _eq(a, b):
    if isinstance(a, tuple) or isinstance(b, tuple):
        return isinstance(a, tuple) and isinstance(b, tuple) and len(a) == len(b) and all(_eq(x, y) for x, y in zip(a, b))
    a, b = np.asarray(a), np.asarray(b)
    return a.dtype == b.dtype and a.shape == b.shape and np.array_equal(a, b, equal_nan=True)


def _lazy_real_task(task, p):
    """Two threads racing on the first call of one real kernel; every execution really compiles."""
    name, bound = task
    sub = "lazy_real"
    ns, codes = exec_helper()
    K = lazy_kernels()
    if name == "trivial_njit":
        import numba
        deco, f = numba.njit, (lambda x: x * 2 + 1)
        argsets = [(3,), (4.5,)]
        wrapper = None
    else:
        wrapper, argsets = K[name]
        cells = dict(zip(wrapper.__code__.co_freevars, [c.cell_contents for c in wrapper.__closure__]))
        if "internal_decorator" not in cells or "f" not in cells:
            p.set_undecided(f"lazy_real:{name}", "wrapper closure does not expose internal_decorator / f any more")
            return
        deco, f = cells["internal_decorator"], cells["f"]
    # sequential reference from an independent fresh wrapper
    ref_w = ns["lazycompile"](deco)(f)
    with warnings.catch_warnings():
        warnings.simplefilter("ignore")
        expect = [ref_w(*a) for a in argsets]

    def make():
        st = {"n": 0}

        def counting(fn):
            st["n"] += 1
            return deco(fn)
        w = ns["lazycompile"](counting)(f)
        return [(lambda a=a: w(*a)) for a in argsets], st

    def check(r, st):
        errs = [f"{type(e).__name__}: {e}" for e in r.errors if e is not None]
        ok = not errs and not r.deadlock and all(_eq(x, y) for x, y in zip(r.results, expect))
        msg = None
        if r.deadlock:
            msg = "deadlock"
        elif errs:
            msg = f"a thread raised {errs}"
        elif not ok:
            msg = "a thread's result differs from the sequential result"
        return f"compiles={st['n']}" + ("" if ok else " WRONG"), msg

    with warnings.catch_warnings():
        warnings.simplefilter("ignore")
        res = threads.explore(make, codes, bound, "line", check)
    p.count(sub, evaluations=res["executions"], states=res["executions"], transitions=res["executions"] * res["max_points"],
            traces_validated_against_impl=res["executions"], nontrivial=max(0, res["executions"] - 1))
    p.note(f"lazy_real_{name}", {"bound": bound, "executions": res["executions"], "outcomes": res["outcomes"]})
    for choices, msg in res["violations"][:2]:
        # a failing schedule is only trusted when replaying it twice gives identical observations
        with warnings.catch_warnings():
            warnings.simplefilter("ignore")
            threads.replay_twice(make, codes, choices, "line",
                                 lambda r, st: ([type(e).__name__ if e else None for e in r.errors], [_eq(x, y) for x, y in zip(r.results, expect)], r.deadlock))
        p.violation(sub, {"kernel": name, "schedule": choices}, {"kind": "lazy_real", "kernel": name, "schedule": choices, "bound": bound},
                    f"first-call race on {name}, schedule {choices}: {msg}")
    p.sample(sub, {"kernel": name, "threads": 2, "preemption_bound": bound, "outcomes": res["outcomes"]})


def lazy_free_running(ctx):
    """Supplement (sampling, not the deciding step): real free-running threads on fresh wrappers."""
    import threading
    import time
    ns, _ = exec_helper()
    sub = "lazy_free_running_sampling"
    bad = 0
    rounds = 20
    for _ in range(rounds):
        cnt = {"n": 0}

        def deco(f):
            cnt["n"] += 1
            time.sleep(0.0005)
            return lambda *a: ("r", f(*a))
        w = ns["lazycompile"](deco)(lambda x: x * 2)
        res = [None] * 16

        def body(i):
            res[i] = w(i)
        ths = [threading.Thread(target=body, args=(i,)) for i in range(16)]
        for t in ths:
            t.start()
        for t in ths:
            t.join()
        if res != [("r", 2 * i) for i in range(16)]:
            bad += 1
    ctx.note("lazy_free_running", {"rounds": rounds, "threads": 16, "wrong_rounds": bad, "note": "sampling supplement, not exhaustive"})
    if bad:
        ctx.violation(sub, {"what": "free-running"}, {"kind": "lazy_free"}, f"{bad} of {rounds} free-running rounds returned wrong results")


# =============================================================================================== cube + operations
def base_cube():
    import pandas as pd
    import xarray as xr
    import hdc.algo  # noqa: F401
    T, Y, X = 6, 3, 4
    v = ((np.arange(T * Y * X) * 7919) % 97 + 3).astype("int16").reshape(T, Y, X)
    v[2, 1, 1] = -9999
    v[:, 0, 3] = -9999
    v[4, 2, 0] = 0
    da = xr.DataArray(v, dims=("time", "y", "x"), coords={"time": pd.date_range("2000-01-01", periods=T, freq="10D"), "y": np.arange(Y) * 1.5, "x": np.arange(X) + 10.0},
                      attrs={"nodata": -9999}, name="band")
    zones = xr.DataArray(np.array([[0, 0, 1, 1], [2, 0, 1, 255], [2, 2, 255, 1]], dtype="int16"), dims=("y", "x"), coords={"y": da.y, "x": da.x}, attrs={"nodata": 255})
    return da, zones


def operations():
    da, zones = base_cube()
    sr = np.arange(-2.0, 2.0)
    sg = (da.isel(time=0).astype("float64") % 5 - 2).drop_vars("time")
    lc = ((da.isel(time=0).astype("float64") % 10) / 10).drop_vars("time")
    labels = np.repeat(np.arange(3), 4)[:11].astype("int32")
    tmpl = np.array([1.0, 0, 1, 0, 1, 0, 1, 0, 1, 0, 1])
    ones = lambda a: ((a > 30) * 1).astype("uint8")
    O = {
        "whits": lambda a: a.hdc.whit.whits(nodata=-9999, s=10.0),
        "whits_sg_p": lambda a: a.hdc.whit.whits(nodata=-9999, sg=sg, p=0.9),
        "whitsvc": lambda a: a.hdc.whit.whitsvc(nodata=-9999, srange=sr),
        "whitsvc_p": lambda a: a.hdc.whit.whitsvc(nodata=-9999, srange=sr, p=0.9),
        "whitsvc_lc": lambda a: a.hdc.whit.whitsvc(nodata=-9999, lc=lc, p=0.9),
        "whitswcv": lambda a: a.hdc.whit.whitswcv(nodata=-9999, srange=sr, robust=False),
        "whitswcv_p_robust": lambda a: a.hdc.whit.whitswcv(nodata=-9999, p=0.8),
        "whitint": lambda a: a.hdc.whit.whitint(labels, tmpl),
        "spi": lambda a: a.hdc.algo.spi(),
        "spi_groups": lambda a: a.hdc.algo.spi(groups=[0, 1, 0, 1, 0, 1]),
        "spi_dtype_int32": lambda a: a.hdc.algo.spi(dtype="int32"),
        "spi_groups_dtype_float32": lambda a: a.hdc.algo.spi(groups=[0, 1, 0, 1, 0, 1], dtype="float32"),
        "rolling_sum_float64": lambda a: a.hdc.rolling.sum(2, dtype="float64"),
        "lroo": lambda a: ones(a).hdc.algo.lroo(),
        "croo": lambda a: ones(a).hdc.algo.croo(),
        "autocorr": lambda a: a.hdc.algo.autocorr(),
        "mktrend": lambda a: a.hdc.algo.mktrend(),
        "mean_grp": lambda a: a.hdc.algo.mean_grp(np.array([0, 1, 0, 1, 2, 2], dtype="int16")),
        "rolling_sum": lambda a: a.hdc.rolling.sum(3),
        "zonal_mean": lambda a: a.hdc.zonal.mean(zones, [0, 1, 2]),
        "zonal_mean_f64": lambda a: a.hdc.zonal.mean(zones, [0, 1, 2], dtype="float64", dim_name="zz", name="zm"),
        # float32 cubes with scalar arguments that float32 cannot represent (nodata -9999.9, s = 10.1): in memory the
        # scalars arrive as Python numbers, under dask as 0-d arrays - the loop chosen for them must not differ
        "whits_f32_fracnodata": lambda a: _f32(a).hdc.whit.whits(nodata=-9999.9, s=10.1),
        "whits_p_f32_fracnodata": lambda a: _f32(a).hdc.whit.whits(nodata=-9999.9, s=10.1, p=0.9),
        "whitsvc_f32_fracnodata": lambda a: _f32(a).hdc.whit.whitsvc(nodata=-9999.9, srange=sr),
        "whitswcv_f32_fracnodata": lambda a: _f32(a).hdc.whit.whitswcv(nodata=-9999.9, srange=sr, robust=False),
    }
    return da, O


def _f32(a):
    """The cube as float32 with its missing cells written as float32(-9999.9) (not a float32-representable number)."""
    f = a.astype("float32")
    return f.where(a != -9999, np.float32(-9999.9)).assign_attrs(a.attrs)


NEEDS_TIME_FIRST = set()
CORE_TIME_OPS = None


def materialise(r):
    """Eagerly computed xarray object -> comparable structure."""
    import xarray as xr
    declared = {k: str(r[k].dtype) for k in r.data_vars} if isinstance(r, xr.Dataset) else {"_": str(r.dtype)}
    with warnings.catch_warnings():
        warnings.simplefilter("ignore")
        r = r.compute()
    out = {k: r[k] for k in r.data_vars} if isinstance(r, xr.Dataset) else {"_": r}
    for k in out:
        # what the (possibly lazy) object announced before it was computed
        out[k].attrs = dict(out[k].attrs, __declared_dtype__=declared[k])
    return out


def same(a, b, canon_dims=None):
    """Equal values (bit-exact, NaN == NaN), dims (as sets when layouts differ), coords and dtype."""
    if set(a) != set(b):
        return f"variables {sorted(a)} vs {sorted(b)}"
    for k in a:
        x, y = a[k], b[k]
        if set(x.dims) != set(y.dims):
            return f"{k}: dims {x.dims} vs {y.dims}"
        if canon_dims is None and x.dims != y.dims:
            return f"{k}: dims {x.dims} vs {y.dims}"
        y2 = y.transpose(*x.dims)
        if x.dtype != y2.dtype:
            return f"{k}: dtype {y2.dtype} vs eager {x.dtype}"
        if y.attrs.get("__declared_dtype__") not in (None, str(x.dtype)):
            return f"{k}: the lazy result announced dtype {y.attrs.get('__declared_dtype__')} but the in-memory result has {x.dtype}"
        if x.shape != y2.shape or not np.array_equal(x.values, y2.values, equal_nan=True):
            return f"{k}: values differ from the eager in-memory result"
        for c in x.coords:
            if c not in y2.coords:
                return f"{k}: coordinate {c} missing"
            xv, yv = np.asarray(x[c].values), np.asarray(y2[c].values)
            if xv.shape != yv.shape or not (np.array_equal(xv, yv) if xv.dtype.kind not in "fc" else np.array_equal(xv, yv, equal_nan=True)):
                return f"{k}: coordinate {c} differs"
        for c in y2.coords:
            if c not in x.coords:
                return f"{k}: extra coordinate {c}"
    return None


# =============================================================================================== (b) DASKSCHED
def _dasksched_task(task, p):
    import dask
    name, chunks, bound = task
    sub = "dask_task_orders"
    da, O = operations()
    f = O[name]
    with warnings.catch_warnings():
        warnings.simplefilter("ignore")
        eager = materialise(f(da))
        lazy = f(da.chunk(chunks))

    def compute(get):
        with warnings.catch_warnings():
            warnings.simplefilter("ignore")
            with dask.config.set(scheduler=get):
                return materialise(lazy)

    def check(res):
        return same(eager, res)
    try:
        res = daskget.explore_orders(compute, bound, check, max_execs=4000)
    except Exception as e:
        if core.raised_in_repo(e):
            p.violation(sub, {"op": name, "chunks": chunks}, {"kind": "dasksched", "op": name, "chunks": chunks, "bound": bound},
                        f"{name} on chunks {chunks} raised {type(e).__name__}: {e} under the controlled scheduler")
            return
        raise
    p.count(sub, evaluations=res["executions"], states=res["executions"], transitions=res["executions"] * res["max_points"],
            traces_validated_against_impl=res["executions"], nontrivial=max(0, res["executions"] - 1))
    if res["capped"]:
        p.note(f"dask_orders_capped_{name}", True)
    for choices, msg in res["violations"][:2]:
        p.violation(sub, {"op": name, "chunks": chunks, "schedule": choices}, {"kind": "dasksched", "op": name, "chunks": chunks, "schedule": choices, "bound": bound},
                    f"{name} on chunks {chunks}, task order {choices}: {msg}")
    # every relative order of the (up to 4) heaviest layer's tasks: permutations through priorities
    g = dict(lazy.__dask_graph__()) if not hasattr(lazy, "data_vars") else dict(lazy[list(lazy.data_vars)[0]].__dask_graph__())
    p.sample(sub, {"op": name, "chunks": chunks, "graph_tasks": len(g), "deviation_bound": bound, "executions": res["executions"]})


# =============================================================================================== (c) CONFIG
FLOAT_DTYPES = {
    "whits": ("float64", "float32"), "whits_sg_p": ("float64",), "whitsvc": ("float64", "float32"), "whitsvc_p": ("float64",),
    "whitswcv": ("float64",), "whitswcv_p_robust": ("float64",), "spi": ("float64", "float32"), "spi_groups": ("float32",),
    "mktrend": ("float32",), "mean_grp": ("float32", "int64"), "rolling_sum": ("float32", "int64"), "zonal_mean": ("float32", "float64"), "zonal_mean_f64": ("float32",),
}
FEW_CHUNKINGS = [((3,), (4,)), ((1, 1, 1), (1, 1, 1, 1)), ((2, 1), (2, 2)), ((1, 2), (3, 1))]


def _config_task(task, p):
    import dask
    name, orders, scheds = task[:3]
    dtype = task[3] if len(task) > 3 else "int16"
    sub = "configurations"
    da, O = operations()
    if dtype != "int16":
        da = da.astype(dtype).assign_attrs(da.attrs)
    f = O[name]
    with warnings.catch_warnings():
        warnings.simplefilter("ignore")
        eager = materialise(f(da))
    n_eval = 0
    ycomps = list(sse.compositions(3))
    xcomps = list(sse.compositions(4))
    pairs = [(yc, xc) for yc in ycomps for xc in xcomps] if dtype == "int16" else FEW_CHUNKINGS
    for order in orders:
        if name in NEEDS_TIME_FIRST and order[0] != "time":
            continue
        dao = da.transpose(*order)
        with warnings.catch_warnings():
            warnings.simplefilter("ignore")
            try:
                eager_o = materialise(f(dao))
            except Exception as e:
                p.violation(sub, {"op": name, "order": list(order), "what": "eager", "dtype": dtype}, {"kind": "config", "op": name, "dtype": dtype},
                            f"{name} [{dtype}] on in-memory data with dims {order} raised {type(e).__name__}: {e}")
                continue
        msg = same(eager, eager_o, canon_dims=True)
        if msg:
            p.violation(sub, {"op": name, "order": list(order), "what": "layout", "dtype": dtype}, {"kind": "config", "op": name, "dtype": dtype},
                        f"{name} [{dtype}]: in-memory result for dims {order} differs from dims (time,y,x): {msg}")
        for yc, xc in pairs:
            if True:
                ch = {"time": -1, "y": yc, "x": xc}
                for sched, nw in scheds:
                    n_eval += 1
                    try:
                        with warnings.catch_warnings():
                            warnings.simplefilter("ignore")
                            kw = {"scheduler": sched}
                            if nw:
                                kw["num_workers"] = nw
                            with dask.config.set(**kw):
                                res = materialise(f(dao.chunk(ch)))
                    except Exception as e:
                        p.violation(sub, {"op": name, "order": list(order), "chunks": [list(yc), list(xc)], "scheduler": [sched, nw], "dtype": dtype},
                                    {"kind": "config", "op": name, "dtype": dtype}, f"{name} [{dtype}] dims {order} chunks y={yc} x={xc} [{sched},{nw}] raised {type(e).__name__}: {e}")
                        continue
                    msg = same(eager_o, res)
                    if msg:
                        p.violation(sub, {"op": name, "order": list(order), "chunks": [list(yc), list(xc)], "scheduler": [sched, nw], "dtype": dtype},
                                    {"kind": "config", "op": name, "dtype": dtype}, f"{name} [{dtype}] dims {order} chunks y={yc} x={xc} [{sched},{nw}]: {msg}")
    p.count(sub, evaluations=n_eval, states=n_eval, transitions=n_eval, traces_validated_against_impl=n_eval, nontrivial=n_eval)
    p.sample(sub, {"op": name, "dtype": dtype, "orders": [list(o) for o in orders], "yx_chunkings": len(pairs), "schedulers": scheds})


# =============================================================================================== (c2) JOINT GRAPHS
def joint_pairs():
    """name -> (callA, callB): the same operation with two different auxiliary inputs of equal shape / dtype / name,
    or the same call on two cubes that differ only in content."""
    da, zones = base_cube()
    zones_b = zones.copy(data=np.array([[1, 1, 0, 0], [0, 2, 2, 255], [255, 1, 1, 2]], dtype="int16"))
    zones_c = zones.copy(data=np.array([[0, 0, 1, 1], [2, 0, 1, 1], [2, 2, 0, 1]], dtype="int16"))
    sg = (da.isel(time=0).astype("float64") % 5 - 2).drop_vars("time")
    sg_b = (3 - sg).clip(-2, 2)
    lc = ((da.isel(time=0).astype("float64") % 10) / 10).drop_vars("time")
    lc_b = 1.0 - lc
    sr, sr_b = np.arange(-2.0, 2.0), np.arange(-1.0, 3.0)
    la, lb = np.repeat(np.arange(3), 4)[:11].astype("int32"), np.array([0, 0, 0, 1, 1, 1, 1, 1, 2, 2, 2], dtype="int32")
    tmpl = np.array([1.0, 0, 1, 0, 1, 0, 1, 0, 1, 0, 1])
    tmpl_b = np.array([1.0, 1, 0, 0, 1, 0, 1, 0, 0, 1, 1])
    ga, gb = np.array([0, 1, 0, 1, 2, 2], dtype="int16"), np.array([0, 0, 1, 1, 2, 2], dtype="int16")
    P = {
        "zonal_mean": (lambda a: a.hdc.zonal.mean(zones, [0, 1, 2]), lambda a: a.hdc.zonal.mean(zones_b, [0, 1, 2])),
        "zonal_mean_named": (lambda a: a.hdc.zonal.mean(zones, [0, 1, 2], name="zm"), lambda a: a.hdc.zonal.mean(zones_b, [0, 1, 2], name="zm")),
        "zonal_mean_f64_named": (lambda a: a.hdc.zonal.mean(zones, [0, 1, 2], dtype="float64", dim_name="zz", name="zm"),
                                 lambda a: a.hdc.zonal.mean(zones_b, [0, 1, 2], dtype="float64", dim_name="zz", name="zm")),
        "zonal_mean_ids": (lambda a: a.hdc.zonal.mean(zones, [0, 1, 2], name="zm"), lambda a: a.hdc.zonal.mean(zones, [7, 8, 9], name="zm")),
        "whits_sg": (lambda a: a.hdc.whit.whits(nodata=-9999, sg=sg), lambda a: a.hdc.whit.whits(nodata=-9999, sg=sg_b)),
        "whits_s": (lambda a: a.hdc.whit.whits(nodata=-9999, s=10.0), lambda a: a.hdc.whit.whits(nodata=-9999, s=100.0)),
        "whits_p": (lambda a: a.hdc.whit.whits(nodata=-9999, s=10.0, p=0.9), lambda a: a.hdc.whit.whits(nodata=-9999, s=10.0, p=0.1)),
        "whitsvc_srange": (lambda a: a.hdc.whit.whitsvc(nodata=-9999, srange=sr), lambda a: a.hdc.whit.whitsvc(nodata=-9999, srange=sr_b)),
        "whitsvc_lc": (lambda a: a.hdc.whit.whitsvc(nodata=-9999, lc=lc, p=0.9), lambda a: a.hdc.whit.whitsvc(nodata=-9999, lc=lc_b, p=0.9)),
        "whitswcv_robust": (lambda a: a.hdc.whit.whitswcv(nodata=-9999, srange=sr, robust=False), lambda a: a.hdc.whit.whitswcv(nodata=-9999, srange=sr, robust=True)),
        "whitint": (lambda a: a.hdc.whit.whitint(la, tmpl), lambda a: a.hdc.whit.whitint(lb, tmpl_b)),
        "whitint_labels": (lambda a: a.hdc.whit.whitint(la, tmpl), lambda a: a.hdc.whit.whitint(lb, tmpl)),
        "whitint_template": (lambda a: a.hdc.whit.whitint(la, tmpl), lambda a: a.hdc.whit.whitint(la, tmpl_b)),
        "spi_groups_window": (lambda a: a.hdc.algo.spi(groups=[0, 1, 0, 1, 0, 1]), lambda a: a.hdc.algo.spi(groups=[0, 1, 0, 1, 0, 1], calibration_begin="2000-01-11")),
        "spi_nodata": (lambda a: a.hdc.algo.spi(nodata=-9999), lambda a: a.hdc.algo.spi(nodata=0)),
        "rolling_sum_nodata": (lambda a: a.hdc.rolling.sum(2, nodata=-9999), lambda a: a.hdc.rolling.sum(2, nodata=0)),
        "mean_grp_nodata": (lambda a: a.hdc.algo.mean_grp(ga, nodata=-9999), lambda a: a.hdc.algo.mean_grp(ga, nodata=0)),
        "whits_nodata": (lambda a: a.hdc.whit.whits(nodata=-9999, s=10.0), lambda a: a.hdc.whit.whits(nodata=0, s=10.0)),
        "whitswcv_p": (lambda a: a.hdc.whit.whitswcv(nodata=-9999, srange=sr, p=0.9), lambda a: a.hdc.whit.whitswcv(nodata=-9999, srange=sr, p=0.1)),
        "zonal_mean_dtype": (lambda a: a.hdc.zonal.mean(zones, [0, 1, 2], name="zm"), lambda a: a.hdc.zonal.mean(zones, [0, 1, 2], name="zm", dtype="float64")),
        "croo": (lambda a: ((a > 30) * 1).astype("uint8").hdc.algo.croo(), lambda a: ((a > 50) * 1).astype("uint8").hdc.algo.croo()),
        "lroo": (lambda a: ((a > 30) * 1).astype("uint8").hdc.algo.lroo(), lambda a: ((a > 50) * 1).astype("uint8").hdc.algo.lroo()),
        "autocorr": (lambda a: a.hdc.algo.autocorr(), lambda a: a.assign_attrs(nodata=0).hdc.algo.autocorr()),
        "mktrend": (lambda a: a.hdc.algo.mktrend(), lambda a: a.assign_attrs(nodata=0).hdc.algo.mktrend()),
        # (the raster holds only the ids 0..2, so that it stays in contract whichever value is declared as its nodata)
        "zonal_mean_zone_nodata": (lambda a: a.hdc.zonal.mean(zones_c, [0, 1, 2], name="zm"), lambda a: a.hdc.zonal.mean(zones_c.assign_attrs(nodata=2), [0, 1, 2], name="zm")),
        "spi_groups": (lambda a: a.hdc.algo.spi(groups=[0, 1, 0, 1, 0, 1]), lambda a: a.hdc.algo.spi(groups=[0, 0, 0, 1, 1, 1])),
        "spi_window": (lambda a: a.hdc.algo.spi(calibration_end="2000-01-31"), lambda a: a.hdc.algo.spi(calibration_begin="2000-01-11")),
        "mean_grp": (lambda a: a.hdc.algo.mean_grp(ga), lambda a: a.hdc.algo.mean_grp(gb)),
        "rolling_sum": (lambda a: a.hdc.rolling.sum(2), lambda a: a.hdc.rolling.sum(3)),
    }
    return da, P


def _joint_task(task, p):
    """Two lazy results built on the same dask-backed cube and evaluated in ONE graph (dask.compute(a, b), as a
    Dataset, as a difference): each must still be what the same call gives in memory."""
    import dask
    import xarray as xr
    name = task
    sub = "joint_graph"
    da, P = joint_pairs()
    fa, fb = P[name]
    da2 = da.copy(data=np.where(da.values == -9999, -9999, (da.values * 3 + 1) % 89 + 2).astype("int16"))
    n_eval = 0
    with warnings.catch_warnings():
        warnings.simplefilter("ignore")
        da3 = da.assign_coords(time=da.time.values[::-1].copy())       # the same stored data under another time labelling
        for label, (ca, cb), (xa, xb) in (("two auxiliary inputs, one cube", (fa, fb), (da, da)), ("one call, two cubes", (fa, fa), (da, da2)),
                                          ("one call, the same stored data under two time labellings", (fa, fa), (da, da3))):
            try:
                ea, eb = materialise(ca(xa)), materialise(cb(xb))
            except Exception:
                continue        # the operation refuses this input in memory as well (e.g. an unsorted time axis)
            for ch in ({"time": -1, "y": (2, 1), "x": (2, 2)}, {"time": -1, "y": (3,), "x": (4,)}, {"time": -1, "y": (1, 1, 1), "x": (1, 3)}):
                for sched in ("synchronous", "threads"):
                    la, lb = ca(xa.chunk(ch)), cb(xb.chunk(ch))
                    declared = [{k: str(r[k].dtype) for k in r.data_vars} if isinstance(r, xr.Dataset) else {"_": str(r.dtype)} for r in (la, lb)]
                    with dask.config.set(scheduler=sched):
                        ra, rb = dask.compute(la, lb)
                    n_eval += 1
                    for which, r, e, dec in (("first", ra, ea, declared[0]), ("second", rb, eb, declared[1])):
                        out = {k: r[k] for k in r.data_vars} if isinstance(r, xr.Dataset) else {"_": r}
                        for k in out:
                            out[k].attrs = dict(out[k].attrs, __declared_dtype__=dec[k])
                        msg = same(e, out)
                        if msg:
                            p.violation(sub, {"op": name, "what": label, "which": which, "chunks": {k: list(v) if isinstance(v, tuple) else v for k, v in ch.items()}, "scheduler": sched},
                                        {"kind": "joint", "op": name},
                                        f"{name} ({label}): the {which} of two lazy results computed together with dask.compute(a, b) "
                                        f"[chunks {ch}, {sched}] is not what the same call gives in memory: {msg}")
                    # the same two lazy objects inside one expression
                    if not isinstance(la, xr.Dataset) and la.shape == lb.shape and la.dtype.kind in "fiu":
                        with dask.config.set(scheduler=sched):
                            diff = (la.astype("float64") - lb.astype("float64")).compute()
                        exp = ea["_"].astype("float64") - eb["_"].astype("float64")
                        n_eval += 1
                        if not np.array_equal(diff.transpose(*exp.dims).values, exp.values, equal_nan=True):
                            p.violation(sub, {"op": name, "what": label, "which": "difference", "scheduler": sched}, {"kind": "joint", "op": name},
                                        f"{name} ({label}): a - b of two lazy results [chunks {ch}, {sched}] differs from the difference of the in-memory results")
    p.count(sub, evaluations=n_eval, states=n_eval, transitions=n_eval, traces_validated_against_impl=n_eval, nontrivial=n_eval)
    p.sample(sub, {"op": name, "evaluation": "dask.compute(a, b) and a - b", "chunkings": 3, "schedulers": ["synchronous", "threads"]})


def _time_chunk_task(task, p):
    """A chunked time axis must be refused or handled correctly - never silently computed wrong."""
    name = task
    sub = "time_chunking"
    da, O = operations()
    f = O[name]
    with warnings.catch_warnings():
        warnings.simplefilter("ignore")
        eager = materialise(f(da))
    n = 0
    for tc in sse.compositions(6):
        if len(tc) == 1:
            continue
        n += 1
        try:
            with warnings.catch_warnings():
                warnings.simplefilter("ignore")
                res = materialise(f(da.chunk({"time": tc, "y": (2, 1), "x": -1})))
        except Exception:
            p.count(sub, refused=1)
            continue
        msg = same(eager, res)
        if msg:
            p.violation(sub, {"op": name, "time_chunks": list(tc)}, {"kind": "timechunk", "op": name, "time_chunks": list(tc)},
                        f"{name} with the time axis chunked as {tc} neither raised nor equals the eager result: {msg}")
        else:
            p.count(sub, handled_correctly=1)
    p.count(sub, evaluations=n, states=n, transitions=n, traces_validated_against_impl=n, nontrivial=n)
    p.sample(sub, {"op": name, "time_chunkings": 31})


def _shape_task(task, p):
    """The same pixels presented as a cube of another rank or extent: a single pixel (1x1 cube), one row, one series
    (time only), a (x, time) / (time, x) image, a four-dimensional stack of two cubes.  Each pixel's result depends
    only on its own series, so wherever the operation accepts the shape its values are those of the 3 x 4 cube."""
    import xarray as xr
    name = task
    sub = "shapes"
    da, O = operations()
    f = O[name]
    with warnings.catch_warnings():
        warnings.simplefilter("ignore")
        eager = materialise(f(da))
    da2 = da.copy(data=np.where(da.values == -9999, -9999, (da.values * 5 + 3) % 83 + 1).astype("int16"))
    with warnings.catch_warnings():
        warnings.simplefilter("ignore")
        eager2 = materialise(f(da2))
    n = 0

    def sel(res, **ix):
        return {k: v.isel({d: i for d, i in ix.items() if d in v.dims}) for k, v in res.items()}

    shapes = {
        "single pixel (time, 1, 1)": (da.isel(y=slice(1, 2), x=slice(2, 3)), lambda r: sel(r, y=slice(1, 2), x=slice(2, 3))),
        "single pixel (1, 1, time)": (da.isel(y=slice(1, 2), x=slice(2, 3)).transpose("y", "x", "time"), lambda r: sel(r, y=slice(1, 2), x=slice(2, 3))),
        "one row (time, 1, x)": (da.isel(y=slice(2, 3)), lambda r: sel(r, y=slice(2, 3))),
        "one column (time, y, 1)": (da.isel(x=slice(0, 1)), lambda r: sel(r, x=slice(0, 1))),
        "series (time,)": (da.isel(y=1, x=2, drop=True), lambda r: sel(r, y=1, x=2)),
        "image (time, x)": (da.isel(y=1, drop=True), lambda r: sel(r, y=1)),
        "image (x, time)": (da.isel(y=1, drop=True).transpose("x", "time"), lambda r: sel(r, y=1)),
    }
    for sname, (obj, pick) in shapes.items():
        n += 1
        try:
            with warnings.catch_warnings():
                warnings.simplefilter("ignore")
                got = materialise(f(obj))
        except Exception:
            p.count(sub, refused=1)
            continue
        exp = pick(eager)
        bad = None
        for k in exp:
            if k not in got:
                bad = f"variable {k} missing"
                break
            e, g = exp[k], got[k]
            if set(e.dims) != set(g.dims):
                # dropped scalar coordinates may differ; compare on squeezed values
                e, g = e.squeeze(drop=True), g.squeeze(drop=True)
            if set(e.dims) != set(g.dims):
                bad = f"{k}: dims {g.dims} vs {e.dims}"
                break
            g = g.transpose(*e.dims)
            if e.dtype != g.dtype or e.shape != g.shape or not np.array_equal(e.values, g.values, equal_nan=True):
                bad = f"{k}: values / dtype differ from the same pixels inside the 3 x 4 cube"
                break
        if bad:
            p.violation(sub, {"op": name, "shape": sname}, {"kind": "shape", "op": name}, f"{name} on {sname}: {bad}")
        else:
            p.count(sub, handled_correctly=1)
    # four dimensions: two cubes stacked along a leading band dimension
    n += 1
    try:
        with warnings.catch_warnings():
            warnings.simplefilter("ignore")
            stacked = xr.concat([da, da2], dim="band").assign_attrs(da.attrs)
            stacked.name = da.name
            got = materialise(f(stacked))
        for b, ref in enumerate((eager, eager2)):
            for k in ref:
                g = got[k].isel(band=b, drop=True).transpose(*ref[k].dims)
                if ref[k].dtype != g.dtype or not np.array_equal(ref[k].values, g.values, equal_nan=True):
                    p.violation(sub, {"op": name, "shape": "stack (band, time, y, x)", "band": b}, {"kind": "shape", "op": name},
                                f"{name} on two cubes stacked along a band dimension: band {b}, variable {k} differs from the cube processed alone")
                    raise StopIteration
        p.count(sub, handled_correctly=1)
    except StopIteration:
        pass
    except Exception:
        p.count(sub, refused=1)
    p.count(sub, evaluations=n, states=n, transitions=n, traces_validated_against_impl=n, nontrivial=n)
    p.sample(sub, {"op": name, "shapes": list(shapes) + ["stack (band, time, y, x)"]})


def _repeat_task(task, p):
    """History on one object: the operation called three times on the same in-memory / lazy object, interleaved with
    every other operation; the input object (values, attrs, coords, name, dims) is untouched afterwards and every
    call returns what the first call on a fresh object returns."""
    name = task
    sub = "repeat_calls"
    da, O = operations()
    f = O[name]
    n = 0
    with warnings.catch_warnings():
        warnings.simplefilter("ignore")
        fresh = materialise(f(da.copy(deep=True)))
        for backend in ("numpy", "dask", "float64 numpy", "dask, then loaded in place"):
            obj = da.copy(deep=True)
            if backend.startswith("dask"):
                obj = obj.chunk({"time": -1, "y": (2, 1), "x": (2, 2)})
            if backend == "dask, then loaded in place":
                # the accessor object is created while the data are lazy; DataArray.load() then makes the SAME object
                # an in-memory one - whatever the accessor noted about laziness must not survive that
                try:
                    r0 = materialise(f(obj))
                except Exception:
                    r0 = None
                obj.hdc  # noqa: B018 - make sure the accessor exists before loading
                obj.load()
                try:
                    r1 = materialise(f(obj))
                    msg = same(fresh, r1)
                except Exception as e:  # noqa: BLE001
                    msg = f"raised {type(e).__name__}: {e}"
                n += 1
                if msg and r0 is not None:
                    p.violation(sub, {"op": name, "backend": backend}, {"kind": "repeat", "op": name},
                                f"{name}: after DataArray.load() turned the dask-backed object into an in-memory one, the call on that same object "
                                f"does not give the in-memory result: {msg}")
                continue
            if backend == "float64 numpy":
                if name in ("whitint", "lroo", "croo"):
                    continue
                obj = obj.astype("float64").assign_attrs(da.attrs)
                try:
                    fresh_b = materialise(f(obj.copy(deep=True)))
                except Exception:
                    continue        # the operation does not take float64 input
            else:
                fresh_b = fresh
            pristine = obj.copy(deep=True)
            others = [o for o in O if o != name]
            for step in range(3):
                r = materialise(f(obj))
                n += 1
                msg = same(fresh_b, r)
                if msg:
                    p.violation(sub, {"op": name, "backend": backend, "call": step + 1}, {"kind": "repeat", "op": name},
                                f"{name} [{backend}]: call number {step + 1} on the same object differs from the call on a fresh object: {msg}")
                    break
                if not (obj.dims == pristine.dims and obj.name == pristine.name and obj.attrs == pristine.attrs and obj.dtype == pristine.dtype
                        and np.array_equal(np.asarray(obj.values), np.asarray(pristine.values), equal_nan=True)
                        and all(np.array_equal(obj[c].values, pristine[c].values) for c in pristine.coords) and set(obj.coords) == set(pristine.coords)):
                    p.violation(sub, {"op": name, "backend": backend, "what": "input modified"}, {"kind": "repeat", "op": name},
                                f"{name} [{backend}] modified the object it was called on (values / attrs / coords / name)")
                    break
                # another operation in between
                try:
                    materialise(O[others[(step * 7) % len(others)]](obj))
                except Exception:
                    pass
            else:
                # the data edited in place (one cell becomes missing: the nodata marker, NaN for float64): the next call
                # must see the object as it is now - nothing learnt about the data in an earlier call may be kept
                if backend in ("numpy", "float64 numpy") and name not in ("lroo", "croo"):
                    mark = np.nan if backend == "float64 numpy" and name.startswith("zonal") else -9999
                    for cell in ((1, 2, 3), (0, 0, 0)):
                        obj.values[cell] = mark
                        ref_obj = da.copy(deep=True).astype(obj.dtype).assign_attrs(da.attrs)
                        ref_obj.values[...] = obj.values
                        try:
                            exp = materialise(f(ref_obj))
                            got = materialise(f(obj))
                        except Exception:
                            continue
                        n += 1
                        msg = same(exp, got)
                        if msg:
                            p.violation(sub, {"op": name, "backend": backend, "what": "after an in-place edit", "cell": list(cell)}, {"kind": "repeat", "op": name},
                                        f"{name} [{backend}]: after cell {cell} of the object was set to {mark} in place, the call on that object differs from "
                                        f"the call on a fresh object with the same data: {msg}")
                            break
    p.count(sub, evaluations=n, states=n, transitions=n, traces_validated_against_impl=n, nontrivial=n)
    p.sample(sub, {"op": name, "calls": 3, "backends": ["numpy", "dask", "float64 numpy"]})


def _coords_task(task, p):
    """Cubes that carry non-index coordinates (a scalar spatial_ref, a 2-d lon, a label per row - none depending on
    time): whatever the operation does with them, it does the same in every dimension order and for in-memory and
    dask-backed data (same coordinate names on the result, same values)."""
    name = task
    sub = "aux_coordinates"
    da, O = operations()
    f = O[name]
    Y, X = da.sizes["y"], da.sizes["x"]
    dac = da.assign_coords(spatial_ref=0, lon=(("y", "x"), np.arange(Y * X, dtype="float64").reshape(Y, X) / 8), row=("y", ["a", "b", "c"]))

    def coords_of(r):
        out = {}
        import xarray as xr
        items = {k: r[k] for k in r.data_vars} if isinstance(r, xr.Dataset) else {"_": r}
        for k, v in items.items():
            out[k] = {c: np.asarray(v[c].transpose(*[d for d in ("y", "x") if d in v[c].dims], ...).values).tolist() for c in v.coords if "time" not in v[c].dims}
        return out

    ref = None
    n = 0
    with warnings.catch_warnings():
        warnings.simplefilter("ignore")
        for order in (("y", "x", "time"), ("time", "y", "x"), ("y", "time", "x")):
            for backend in ("numpy", "dask"):
                obj = dac.transpose(*order)
                if backend == "dask":
                    obj = obj.chunk({"time": -1, "y": (2, 1), "x": (2, 2)})
                try:
                    r = f(obj)
                    if backend == "dask":
                        r = r.compute()
                    got = coords_of(r)
                except Exception:
                    p.count(sub, refused=1)
                    continue
                n += 1
                if ref is None:
                    ref = (order, backend, got)
                elif got != ref[2]:
                    missing = {k: sorted(set(ref[2][k]) - set(got.get(k, {}))) for k in ref[2]}
                    extra = {k: sorted(set(got.get(k, {})) - set(ref[2][k])) for k in ref[2]}
                    p.violation(sub, {"op": name, "order": list(order), "backend": backend}, {"kind": "coords", "op": name},
                                f"{name}: on the {backend} cube with dims {order} the result's time-independent coordinates differ from those on the {ref[1]} cube "
                                f"with dims {ref[0]} (missing {missing}, extra {extra}, or different values)")
    p.count(sub, evaluations=n, states=n, transitions=n, traces_validated_against_impl=n, nontrivial=n)
    p.sample(sub, {"op": name, "coordinates": ["spatial_ref (scalar)", "lon (y, x)", "row (y)"], "orders": 3, "backends": ["numpy", "dask"]})


def _cross_object_task(task, p):
    """State shared ACROSS objects (module- or class-level stores): the operation on cube A, then on a related cube B
    (the same bytes read as another dtype, the same data under another nodata attribute / other time labels / as
    float32, other data on the same coordinates), then on A again ... in one process.  The expectation for every
    cube comes from a child process forked BEFORE this process has run the operation on any of them."""
    name = task
    sub = "cross_object_sequences"
    da, O = operations()
    f = O[name]
    variants = {
        "A": lambda: da.copy(deep=True),
        "the same bytes as uint16": lambda: da.copy(data=da.values.view("uint16").copy()),
        "other data, same coordinates": lambda: da.copy(data=np.where(da.values == -9999, -9999, (da.values * 5 + 3) % 83 + 1).astype("int16")),
        "nodata attribute 0": lambda: da.copy(deep=True).assign_attrs(nodata=0),
        "time labels shifted by 5 days": lambda: da.copy(deep=True).assign_coords(time=da.time.values + np.timedelta64(5, "D")),
        "float32 copy": lambda: da.astype("float32").assign_attrs(da.attrs),
    }

    def compute(v):
        with warnings.catch_warnings():
            warnings.simplefilter("ignore")
            try:
                return ("ok", materialise(f(variants[v]())))
            except Exception as e:  # noqa: BLE001
                return ("raise", type(e).__name__)

    def fresh(v):
        """compute(v) in a child of its own, forked from this process as it is now (os.fork: pool workers are daemonic
        and may not start multiprocessing children)."""
        r, w = os.pipe()
        pid = os.fork()
        if pid == 0:
            try:
                os.close(r)
                data = pickle.dumps(compute(v))
                with os.fdopen(w, "wb") as fh:
                    fh.write(data)
            finally:
                os._exit(0)
        os.close(w)
        with os.fdopen(r, "rb") as fh:
            data = fh.read()
        os.waitpid(pid, 0)
        return pickle.loads(data) if data else None

    refs = {v: fresh(v) for v in variants}
    if any(r is None for r in refs.values()):
        p.set_undecided(sub, f"a reference child for {name} died")
        return
    n = 0
    order = ["A"]
    for v in variants:
        if v != "A":
            order += [v, "A"]
    order += [v for v in reversed(list(variants)) if v != "A"]
    history = []
    for v in order:
        got = compute(v)
        history.append(v)
        n += 1
        exp = refs[v]
        if got[0] != exp[0]:
            msg = f"{'raises ' + got[1] if got[0] == 'raise' else 'returns a result'} while a fresh process {'raises ' + exp[1] if exp[0] == 'raise' else 'returns a result'}"
        elif got[0] == "raise":
            msg = None if got[1] == exp[1] else f"raises {got[1]} instead of {exp[1]}"
        else:
            msg = same(exp[1], got[1])
        if msg:
            p.violation(sub, {"op": name, "cube": v, "history": history[:-1][-4:]}, {"kind": "crossobj", "op": name},
                        f"{name} on the cube '{v}' after the same process has run it on {history[:-1][-4:]}: {msg} (the result of a fresh process is the reference)")
            break
    p.count(sub, evaluations=n, states=n, transitions=n, traces_validated_against_impl=n, nontrivial=n)
    p.sample(sub, {"op": name, "cubes": list(variants), "sequence": order})


def _perm_task(task, p):
    """Permuting the pixels of a 2x3 grid permutes the results (each pixel depends only on its own series)."""
    import pandas as pd
    import xarray as xr
    name, lo, hi = task
    sub = "pixel_permutations"
    _, O = operations()
    base, _ = base_cube()
    f = O[name]
    pix = base.values[:, :2, :3].reshape(6, 6)          # (time, 6 pixels)

    def cube(perm):
        v = pix[:, list(perm)].reshape(6, 2, 3)
        return xr.DataArray(v, dims=("time", "y", "x"), coords={"time": base.time.values}, attrs={"nodata": -9999}, name="band")
    with warnings.catch_warnings():
        warnings.simplefilter("ignore")
        ref = materialise(f(cube(range(6))))
        n = 0
        for perm in list(itertools.permutations(range(6)))[lo:hi]:
            r = materialise(f(cube(perm)))
            n += 1
            for k in ref:
                a = ref[k].transpose(..., "y", "x").values
                b = r[k].transpose(..., "y", "x").values
                a2 = a.reshape(a.shape[:-2] + (6,))[..., list(perm)]
                if not np.array_equal(a2, b.reshape(b.shape[:-2] + (6,)), equal_nan=True):
                    p.violation(sub, {"op": name, "perm": list(perm)}, {"kind": "perm", "op": name, "perm": list(perm)},
                                f"{name}: permuting the pixels by {perm} does not permute the results (variable {k})")
                    break
    p.count(sub, evaluations=n, states=n, transitions=n, traces_validated_against_impl=n, nontrivial=n)


# =============================================================================================== (d) THREADS (child process)
def threads_child(out):
    import numba
    import hdc.algo  # noqa: F401
    plc = importlib.import_module("hdc.algo.ops.ws2doptvplc")
    p = core.Partial()
    sub = "prange_thread_counts"
    maxt = numba.config.NUMBA_NUM_THREADS
    for rows in (1, 2, 3, 15, 16, 17, 33):
        t = np.arange(12)
        cube = np.empty((12, rows, 5), dtype="int16")
        for r in range(rows):
            for c in range(5):
                cube[:, r, c] = (3000 + 1500 * np.sin(t / 2.0 + r) + 400 * np.cos(t * (c + 1)) + ((t * 31 + r * 7 + c) % 13) * 20).astype("int16")
        cube[3, 0, 0] = -3000
        if rows > 2:
            cube[:, 2, 1] = -3000
        numba.set_num_threads(1)
        try:
            ref = plc.ws2doptvplc_tyx(cube, 0.9, -3000)
        except BaseException as e:  # noqa: BLE001
            p.violation(sub, {"rows": rows, "threads": 1}, {"kind": "threads", "rows": rows, "threads": 1},
                        f"ws2doptvplc_tyx raised {type(e).__name__}: {e} with 1 thread on {rows} rows")
            continue
        for nt in range(1, min(16, maxt) + 1):
            numba.set_num_threads(nt)
            for rep in range(5):
                try:
                    r = plc.ws2doptvplc_tyx(cube, 0.9, -3000)
                except BaseException as e:  # noqa: BLE001
                    p.violation(sub, {"rows": rows, "threads": nt}, {"kind": "threads", "rows": rows, "threads": nt},
                                f"ws2doptvplc_tyx raised {type(e).__name__}: {e} with {nt} threads on {rows} rows (single-thread run succeeds)")
                    break
                p.count(sub, evaluations=1, states=1, transitions=1, traces_validated_against_impl=1, nontrivial=int(nt > 1))
                if not (np.array_equal(r[0], ref[0]) and np.array_equal(r[1], ref[1])):
                    p.violation(sub, {"rows": rows, "threads": nt}, {"kind": "threads", "rows": rows, "threads": nt},
                                f"ws2doptvplc_tyx with {nt} threads on {rows} rows differs from the single-thread result (repetition {rep})")
                    break
    p.sample(sub, {"rows": [1, 2, 3, 15, 16, 17, 33], "thread_counts": f"1..{min(16, maxt)}", "repetitions": 5})
    with open(out, "wb") as fh:
        pickle.dump(p, fh)


def start_threads_child():
    env = dict(os.environ)
    env["NUMBA_NUM_THREADS"] = "16"
    td = tempfile.mkdtemp(dir="/var/tmp", prefix="c12thr_")
    out = os.path.join(td, "thr.pkl")
    pr = subprocess.Popen([sys.executable, "-W", "ignore", "-m", "vf.checks.c12", "threads", out], env=env, cwd=core.ROOT,
                          stdout=subprocess.PIPE, stderr=subprocess.PIPE, text=True)
    return pr, td, out


def finish_threads_child(ctx, child):
    import shutil
    pr, td, out = child
    try:
        so, se = pr.communicate()
        if pr.returncode != 0 or not os.path.exists(out):
            raise RuntimeError(f"thread-count child failed (rc={pr.returncode}):\n{se[-3000:]}")
        with open(out, "rb") as fh:
            ctx.merge(pickle.load(fh))
    finally:
        shutil.rmtree(td, ignore_errors=True)


def run_threads_child(ctx):
    finish_threads_child(ctx, start_threads_child())


# =============================================================================================== (e) VPRANGE
def _vprange_setup():
    import hdc.algo  # noqa: F401
    plc = importlib.import_module("hdc.algo.ops.ws2doptvplc")
    fn = plc.ws2doptvplc_tyx.__wrapped__
    build, found = vprange.virtualise(fn)
    return plc, fn, build, found


def vprange_cube(cols):
    t = np.arange(4)
    cube = np.empty((4, 2, cols), dtype="int16")
    for r in range(2):
        for c in range(cols):
            cube[:, r, c] = (50 + 30 * np.sin(t + r) + 11 * c + (t * 7 + r) % 5).astype("int16")
    return cube


def _vprange_task(task, p):
    cols, bound, root = task
    sub = "virtual_prange"
    plc, fn, build, found = _vprange_setup()
    if found == 0:
        p.set_undecided(sub, "no prange loop found in ws2doptvplc_tyx")
        return
    cube = vprange_cube(cols)
    seq = build(lambda body, n: [body(i) for i in range(n)])
    ref = seq(cube.copy(), 0.9, 0)
    holder = {}

    def run_with(prefix):
        def run_prange(body, n):
            r = threads.Run([(lambda i=i: body(i)) for i in range(n)], [body.__code__], prefix, "line").run()
            holder["run"] = r
        vf_ = build(run_prange)
        out = vf_(cube.copy(), 0.9, 0)
        return holder["run"], out

    # explore (same algorithm as threads.explore, the execution being the whole virtualised kernel)
    stack = [list(root)]
    execs = 0
    maxpts = 0
    outcomes = {}
    while stack:
        prefix = stack.pop()
        r, out = run_with(prefix)
        execs += 1
        maxpts = max(maxpts, len(r.points))
        errs = [f"{type(e).__name__}: {e}" for e in r.errors if e is not None]
        ok = not errs and np.array_equal(out[0], ref[0]) and np.array_equal(out[1], ref[1])
        outcomes["ok" if ok else "WRONG"] = outcomes.get("ok" if ok else "WRONG", 0) + 1
        if not ok and outcomes.get("WRONG", 0) <= 2:
            r2, out2 = run_with(list(r.choices))
            if list(r2.choices) != list(r.choices) or not (np.array_equal(out2[0], out[0]) and np.array_equal(out2[1], out[1], equal_nan=True)):
                raise threads.ReplayDivergence("virtual prange: replaying a failing schedule gave different observations")
            p.violation(sub, {"cols": cols, "schedule": list(r.choices)}, {"kind": "vprange", "cols": cols, "schedule": list(r.choices)},
                        f"prange body interleaving {list(r.choices)[:60]}... gives a result different from the sequential run" + (f" (threads raised {errs})" if errs else ""))
        for i in range(len(prefix), len(r.points)):
            en, running_enabled = r.points[i]
            cost = threads.preemptions_before(r.points, r.choices, i)
            for alt in range(1, len(en)):
                if cost + (1 if running_enabled else 0) > bound:
                    continue
                stack.append(r.choices[:i] + [alt])
    p.count(sub, evaluations=execs, states=execs, transitions=execs * maxpts, traces_validated_against_impl=execs, nontrivial=max(0, execs - 1))
    p.note_max("max_vprange_scheduling_points", maxpts)
    for k, v in outcomes.items():
        for _ in range(v):
            pass
    p.count(sub, **{f"outcome_{k}": v for k, v in outcomes.items()})


def vprange_all(ctx):
    plc, fn, build, found = _vprange_setup()
    sub = "virtual_prange"
    if found == 0:
        ctx.set_undecided(sub, "no prange loop found in ws2doptvplc_tyx")
        return
    # the virtualised source run sequentially must reproduce the compiled kernel (binding to the implementation)
    for cols in (1, 2):
        cube = vprange_cube(cols)
        seq = build(lambda body, n: [body(i) for i in range(n)])
        ref = seq(cube.copy(), 0.9, 0)
        comp = plc.ws2doptvplc_tyx(cube.copy(), 0.9, 0)
        if not (np.array_equal(ref[0], comp[0]) and np.allclose(ref[1], comp[1], rtol=1e-9)):
            ctx.violation(sub, {"what": "sequential virtualised source vs compiled", "cols": cols}, {"kind": "vprange_bind", "cols": cols},
                          "the kernel's source run sequentially under CPython differs from the compiled kernel")
    # the thread count the kernel may ask for (numba.get_num_threads) is an environment answer: every count 1..6 on
    # cubes of 1..7 rows, prange iterations run in order - the result may not depend on the answer
    from .. import interp
    for rows in range(1, 8):
        t = np.arange(4)
        cube = np.empty((4, rows, 2), dtype="int16")
        for r in range(rows):
            for c in range(2):
                cube[:, r, c] = (50 + 30 * np.sin(t + r) + 11 * c + (t * 7 + r) % 5).astype("int16")
        seq = build(lambda body, n: [body(i) for i in range(n)])
        ref = None
        for nthreads in range(1, 7):
            interp.VIRTUAL_THREADS[0] = nthreads
            try:
                out = seq(cube.copy(), 0.9, 0)
            finally:
                interp.VIRTUAL_THREADS[0] = 1
            ctx.count(sub, evaluations=1, states=1, transitions=1, traces_validated_against_impl=1, nontrivial=int(nthreads > 1))
            if ref is None:
                ref = out
            elif not (np.array_equal(out[0], ref[0]) and np.array_equal(out[1], ref[1])):
                ctx.violation(sub, {"what": "virtual thread count", "rows": rows, "threads": nthreads}, {"kind": "vprange_bind", "cols": 1},
                              f"ws2doptvplc_tyx source on {rows} rows: with get_num_threads() = {nthreads} the result differs from the one with 1 thread")
    ctx.sample(sub, {"rows": 2, "time_steps": 4, "granularity": "line", "virtual_thread_counts": "1..6 on 1..7 rows"})


def vprange_tasks(ctx):
    """First-level split: run the default schedule once to learn the scheduling points, then give every
    first deviation to a worker that explores its subtree up to the preemption bound."""
    plc, fn, build, found = _vprange_setup()
    if found == 0:
        return []
    bound = 2 if not ctx.thorough() else 3
    tasks = []
    for cols in ((1,) if not ctx.thorough() else (1, 2)):
        # three preemptions on the two-column cube would be ~10^6 executions in the subtree of the earliest
        # deviation alone (hours for one worker): the wider cube is explored with two
        bound = 2 if (not ctx.thorough() or cols == 2) else 3
        cube = vprange_cube(cols)
        holder = {}

        def run_prange(body, n):
            holder["run"] = threads.Run([(lambda i=i: body(i)) for i in range(n)], [body.__code__], [], "line").run()
        build(run_prange)(cube.copy(), 0.9, 0)
        r = holder["run"]
        tasks.append((cols, 0, ()))
        for i in range(len(r.points)):
            en, running_enabled = r.points[i]
            for alt in range(1, len(en)):
                if (1 if running_enabled else 0) <= bound:
                    tasks.append((cols, bound, tuple(r.choices[:i] + [alt])))
    ctx.note("vprange_preemption_bound", "2" if not ctx.thorough() else "3 on the one-column cube, 2 on the two-column cube")
    ctx.note("vprange_first_level_prefixes", len(tasks))
    return tasks


# =============================================================================================== driver
def _dispatch(task, p):
    kind, t = task
    import time as _t
    t0 = _t.time()
    try:
        _dispatch_inner(kind, t, p)
    finally:
        p.note_max(f"slowest_task_s_{kind}", round(_t.time() - t0, 1))
        if os.environ.get("VERIF_TASK_TIMES") and _t.time() - t0 > 20:
            sys.stderr.write(f"[c12] task {kind} {str(t)[:120]} took {_t.time() - t0:.0f}s\n")


def _dispatch_inner(kind, t, p):
    {"lazy_real": _lazy_real_task, "dasksched": _dasksched_task, "config": _config_task, "time_chunk": _time_chunk_task,
     "perm": _perm_task, "vprange": _vprange_task, "joint": _joint_task, "shape": _shape_task, "repeat": _repeat_task, "coords": _coords_task, "crossobj": _cross_object_task}[kind](t, p)


def run(ctx):
    import time as _t
    _t0 = [_t.time()]

    def lap(name):
        ctx.note(f"wall_s_{name}", round(_t.time() - _t0[0], 1))
        _t0[0] = _t.time()
    threads.selftest()
    lazy_stub(ctx)
    lap("lazy_stub")
    lazy_free_running(ctx)
    K = list(lazy_kernels())
    if ctx.thorough():
        ltasks = [("trivial_njit", 2)] + [(k, 1) for k in K]
    else:
        ltasks = [("trivial_njit", 1), ("lroo", 1), ("rolling_sum", 1), ("autocorr", 1)]
    # every remaining sub-check is a list of independent tasks: one fork pool runs them all (workers compile each
    # kernel at most once); the thread-count sub-check runs meanwhile in its own fresh process
    child = start_threads_child()
    tasks = [("lazy_real", t) for t in ltasks]
    da, O = operations()
    names = list(O)
    bound = 2 if ctx.thorough() else 1
    for name in names:
        tasks.append(("dasksched", (name, {"time": -1, "y": (2, 1), "x": (2, 2)}, bound)))
        tasks.append(("dasksched", (name, {"time": -1, "y": (3,), "x": (1, 1, 1, 1)}, bound if ctx.thorough() else 1)))
    all_orders = list(itertools.permutations(("time", "y", "x")))
    if ctx.thorough():
        orders = all_orders
        scheds = [("synchronous", None)] + [("threads", n) for n in (1, 2, 3, 4, 8, 16)]
    else:
        orders = [("time", "y", "x"), ("y", "x", "time"), ("y", "time", "x")]
        scheds = [("synchronous", None), ("threads", 4)]
    for name in names:
        for o in orders:
            tasks.append(("config", (name, [o], scheds)))
        # other input dtypes: all six layouts (in-memory and a few chunkings); a kernel compiled for one memory layout
        # only shows on inputs that reach it without a cast
        for dt in FLOAT_DTYPES.get(name, ()):
            tasks.append(("config", (name, all_orders, scheds[:1] if not ctx.thorough() else scheds[:2], dt)))
        tasks.append(("time_chunk", name))
        if name in ("zonal_mean", "zonal_mean_f64", "whits_sg_p", "whitsvc_lc"):
            continue   # zonal statistics aggregate over pixels by definition; per-pixel auxiliary rasters are tied to the 3x4 grid
        for lo in (range(0, 720, 180) if ctx.thorough() else range(0, 720, 240)):
            tasks.append(("perm", (name, lo, lo + (180 if ctx.thorough() else 60))))
    tasks += [("vprange", t) for t in vprange_tasks(ctx)]
    tasks += [("joint", nm) for nm in joint_pairs()[1]]
    tasks += [("shape", nm) for nm in names if nm not in ("zonal_mean", "zonal_mean_f64", "whits_sg_p", "whitsvc_lc")]
    tasks += [("repeat", nm) for nm in names]
    tasks += [("coords", nm) for nm in names if not nm.startswith("zonal")]
    tasks += [("crossobj", nm) for nm in names]
    # longest first
    weight = {"config": 5, "dasksched": 4, "lazy_real": 6, "perm": 3, "time_chunk": 2, "vprange": 1, "joint": 2, "shape": 2, "repeat": 2, "coords": 1, "crossobj": 2}
    tasks.sort(key=lambda t: -weight[t[0]])
    ctx.pmap(_dispatch, tasks)
    lap("forked_subchecks")
    finish_threads_child(ctx, child)
    lap("threads_child_wait")
    # runs the compiled parallel kernel in this process: only after the last fork
    vprange_all(ctx)
    lap("vprange_binding")
    ctx.note("operations", names)


def replay(sub, case, p):
    k = case.get("kind")
    if k == "lazy_stub":
        class C(core.Partial):
            def thorough(self):
                return False
        lazy_stub(_wrap(p))
    elif k == "lazy_real":
        _lazy_real_task((case["kernel"], case.get("bound", 1)), p)
    elif k == "dasksched":
        _dasksched_task((case["op"], case["chunks"], case.get("bound", 1)), p)
    elif k == "config":
        _config_task((case["op"], list(itertools.permutations(("time", "y", "x"))), [("synchronous", None), ("threads", 4)], case.get("dtype", "int16")), p)
    elif k == "timechunk":
        _time_chunk_task(case["op"], p)
    elif k == "perm":
        _perm_task((case["op"], 0, 720), p)
    elif k == "vprange":
        _vprange_task((case["cols"], 2, ()), p)
    elif k == "threads":
        run_threads_child(p)
    elif k == "joint":
        _joint_task(case["op"], p)
    elif k == "shape":
        _shape_task(case["op"], p)
    elif k == "repeat":
        _repeat_task(case["op"], p)
    elif k == "coords":
        _coords_task(case["op"], p)
    elif k == "crossobj":
        _cross_object_task(case["op"], p)
    else:
        vprange_all(_wrap(p))


def _wrap(p):
    p.thorough = lambda: False
    if not hasattr(p, "pmap"):
        def pmap(fn, tasks, nproc=None):
            for t in tasks:
                fn(t, p)
        p.pmap = pmap
    return p


if __name__ == "__main__":
    if sys.argv[1] == "threads":
        threads_child(sys.argv[2])

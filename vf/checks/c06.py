"""C06 — smoothers keep linear series, commute with integer offsets and with time reversal.

Bounded exhaustive metamorphic exploration: (i) every integer line a + b*t over a grid of (a, b), every
length 4..8 and every gap pattern through all eight variants and their parameter grids; (ii) every word
over {ND, lo, mid, hi} x every offset in {-7000,-1,1,500,9000} (placeholder shifted too); (iii) every
word reversed (fixed-lambda and V-curve variants).  A 1-unit difference is accepted only where the
reference curve sits on a rounding tie, a different lambda only where the reference criterion is tied.
"""
from __future__ import annotations

import itertools

import numpy as np

from .. import sse
from ..oracle import select
from . import whit_common as wc
from . import c02, c04, c05

LEVEL = "exploration"
RULE = ("lines x gap patterns x variants; words x offsets x variants; words x reversal x variants; non-trivial = "
        "word with a non-linear valid part (offset/reversal) or with at least one gap (lines); distinct = "
        "(word, transformation, variant, parameters)")
ASSUMPTIONS = [
    "tie tolerance is decided from reference quantities only: rounding ties from the reference curve at the "
    "reported lambda (band 1e-5), criterion ties from the reference admissible sets of C04 / C05",
    "robust GCV variants have no statement-level reference for their weights: a 1-unit difference is accepted "
    "there (and counted); a different lambda is accepted for robust variants only when the two bands agree "
    "(degenerate robust criterion: weighted cells fitted exactly, every grid lambda gives the same band)",
]

OFFSETS = [-7000, -1, 1, 500, 9000]


def run_v(variant, params, y, nd):
    return c02.run_variant(variant, y, nd, params)


def srange_of(variant, params):
    if variant == "ws2doptvplc":
        return c04._snap(c04.grid_for(params["lc"]))
    return c02.SR[params["srange"]]


def k_index(variant, params, lopt):
    sr = srange_of(variant, params)
    if variant.startswith("ws2doptv"):
        return c04.k_of(lopt, sr)
    return c05.k_of_grid(lopt, sr)


def admissible(variant, params, y, valid):
    """Reference admissible selections for one batch (only called on mismatching words)."""
    sr = srange_of(variant, params)
    p_env = params.get("p")
    if variant == "ws2doptv":
        return select.vcurve_sym(y, valid, sr)[2]
    if variant in ("ws2doptvp", "ws2doptvplc"):
        adm = None
        for mode in ("warm", "cold", "conv"):
            a = select.vcurve_asym(y, valid, sr, p_env, mode)[2]
            adm = a if adm is None else adm | a
        return adm
    res = select.gcv(y, valid, sr)
    return res["eig"][2] | res["exact"][2]


def compare(variant, params, yA, ndA, yB, ndB, back, valid, what, p, sub):
    """Run the variant on A and on its transformed copy B; back(outB) maps B's band into A's frame."""
    N, n = yA.shape
    case = lambda j: {"kind": "meta", "variant": variant, "params": params, "yA": yA[j].tolist(), "ndA": ndA,
                      "yB": yB[j].tolist(), "ndB": ndB, "what": what}
    key = lambda j: {"variant": variant, "params": params, "y": yA[j].tolist(), "what": what}
    try:
        outA, loptA = run_v(variant, params, yA, ndA)
        outB, loptB = run_v(variant, params, yB, ndB)
    except Exception as e:
        p.violation(sub, key(0), case(0), f"{variant}{params} raised {type(e).__name__}: {e}")
        return
    enough = valid.sum(axis=1) >= c02.min_valid(variant)
    p.count(sub, evaluations=N)
    mapped = back(outB.astype(np.int64))
    d = mapped - outA.astype(np.int64)
    band_diff = (d != 0).any(axis=1) & enough
    robust = bool(params.get("robust"))
    p_env = params.get("p")
    lam_diff = np.zeros(N, bool)
    if loptA is not None:
        lam_diff = (loptA != loptB) & ~(np.isnan(loptA) & np.isnan(loptB)) & enough
        # tiny relative differences of the reported lambda are float noise of 10**x, not a different selection
        with np.errstate(all="ignore"):
            lam_diff &= ~(np.abs(loptA - loptB) <= 1e-9 * np.abs(loptA))      # written so that a NaN lambda counts as different
    todo = np.nonzero(band_diff | lam_diff)[0]
    if todo.size == 0:
        return
    yy, vv = yA[todo], valid[todo]
    tie_ok = np.zeros(todo.size, bool)
    if lam_diff[todo].any():
        adm = admissible(variant, params, yy, vv)
        kA = k_index(variant, params, loptA[todo])
        kB = k_index(variant, params, loptB[todo])
        for t in range(todo.size):
            if lam_diff[todo[t]]:
                tie_ok[t] = kA[t] >= 0 and kB[t] >= 0 and adm[t, kA[t]] and adm[t, kB[t]]
    for t, j in enumerate(todo):
        if lam_diff[j]:
            if tie_ok[t]:
                p.count(sub, criterion_ties=1)
                continue
            if robust and np.abs(d[j]).max() <= 1:
                # the robust criterion (GCV on reweighted data) is not pinned by the statement; when the weighted
                # cells are fitted exactly all its scores are float noise and any grid lambda gives the same band
                p.count(sub, robust_lambda_ties_same_band=1)
                continue
            p.violation(sub, key(j), case(j),
                        f"{variant}{params}: {what}: selected lambda changes from {float(loptA[j])!r} to {float(loptB[j])!r} for y={yA[j].tolist()} "
                        f"although the reference criterion is not tied")
            continue
        # same lambda, band differs
        if np.abs(d[j]).max() > 1:
            p.violation(sub, key(j), case(j),
                        f"{variant}{params}: {what}: band {outA[j].tolist()} vs transformed-back {mapped[j].tolist()} differ by more than one unit for y={yA[j].tolist()}")
            continue
        if robust:
            p.count(sub, robust_unit_diffs=1)
            continue
        lam = params["lam"] if loptA is None else float(loptA[j])
        z, _ = wc.ref_curve(yA[j:j + 1], valid[j:j + 1], lam, p_env)
        ties = wc.near_tie_cells(z)[0]
        cells = d[j] != 0
        if (cells & ~ties).any():
            p.violation(sub, key(j), case(j),
                        f"{variant}{params}: {what}: band {outA[j].tolist()} vs transformed-back {mapped[j].tolist()} for y={yA[j].tolist()}: "
                        f"differs where the reference curve {np.round(z[0], 5).tolist()} is not on a rounding tie")
        else:
            p.count(sub, rounding_ties=1)


def _offset_task(task, p):
    n, lo, hi, variant, params, letters = task[:6]
    offsets = task[6] if len(task) > 6 else OFFSETS
    idx, _ = wc.words(n)
    idx = idx[lo:hi]
    valid = idx != 0
    nd = -3000.0
    yA = wc.render(idx, letters, nd)
    nl = (np.where(valid, yA, np.nan))
    nontriv = int((np.nanmax(nl, axis=1) != np.nanmin(nl, axis=1)).sum()) if valid.any() else 0
    for c in offsets:
        yB = yA + c
        compare(variant, params, yA, nd, yB, nd + c, lambda o, c=c: o - c, valid, f"offset {c}", p, "offset")
    p.count("offset", nontrivial=nontriv)
    if len(task) > 6:
        return
    if variant in ("ws2dgu", "ws2dpgu", "ws2doptv", "ws2doptvp", "ws2doptvplc"):
        yB = yA[:, ::-1].copy()
        compare(variant, params, yA, nd, yB, nd, lambda o: o[:, ::-1], valid, "time reversal", p, "reversal")
        p.count("reversal", nontrivial=nontriv)
        # the reversed series handed over as a view (negative stride) rather than a copy
        compare(variant, params, yA, nd, yA[:, ::-1], nd, lambda o: o[:, ::-1], valid, "time reversal (strided view)", p, "reversal")
    if n == 5 and lo == 0:
        p.sample("offset", {"variant": variant, "params": params, "word": yA[77].tolist(), "offsets": OFFSETS})


def _line_task(task, p):
    n, variant, params = task
    nd = -3000.0
    t = np.arange(n)
    ys, vs, lines = [], [], []
    minv = c02.min_valid(variant)
    for a, b in itertools.product((-100, 0, 7), (-3, 0, 1, 12)):
        line = (a + b * t).astype(np.float64)
        for gaps in itertools.product([True, False], repeat=n):
            v = np.array(gaps)
            if v.sum() >= minv:
                ys.append(np.where(v, line, nd))
                vs.append(v)
                lines.append(line)
    if not ys:
        return
    y, valid, lines = np.array(ys), np.array(vs), np.array(lines)
    try:
        out, lopt = run_v(variant, params, y, nd)
    except Exception as e:
        p.violation("lines", {"variant": variant, "params": params}, {"kind": "line", "variant": variant, "params": params, "y": y[0].tolist(), "nd": nd},
                    f"{variant}{params} raised {type(e).__name__}: {e}")
        return
    p.count("lines", evaluations=len(y), nontrivial=int((~valid).any(axis=1).sum()))
    bad = (out != lines.astype(np.int16)).any(axis=1)
    for j in np.nonzero(bad)[0][:3]:
        p.violation("lines", {"variant": variant, "params": params, "y": y[j].tolist()},
                    {"kind": "line", "variant": variant, "params": params, "y": y[j].tolist(), "nd": nd, "line": lines[j].tolist()},
                    f"{variant}{params}: the exactly linear series {y[j].tolist()} came back as {out[j].tolist()} instead of {lines[j].astype(int).tolist()}")
    if n == 6:
        p.sample("lines", {"variant": variant, "params": params, "example": y[len(y) // 2].tolist()})


def run(ctx):
    wc.compile_all()
    letters = wc.letters_for(ctx.seed)
    maxn = 8 if ctx.thorough() else 7
    tasks = []
    for n in range(maxn, 3, -1):
        total = 4 ** n
        step = 4096
        for variant, params in c02.combos():
            # robust variants have recorded known findings (float noise flips the discontinuous reweighting on a
            # few inputs): their alphabet is kept seed-independent so that the findings stay identifiable
            lt = wc.letters_for(0) if params.get("robust") else letters
            for lo in range(0, total, step):
                tasks.append((n, lo, min(total, lo + step), variant, params, lt))
    # cold start of the lambda sweep: the first grid point is fitted from the zero curve, so the number of
    # reweighting passes it needs depends on the level of the data; a grid that starts at lambda = 1 with p near 1
    # makes that start slow.  All words of length 8 x offsets of a few thousand.
    COLD = [-5000, 3000, 5000]
    for p_env in (0.9, 0.95):
        for lo in range(0, 4 ** 8, 4096):
            tasks.append((8, lo, lo + 4096, "ws2doptvp", dict(srange="c", p=p_env), letters, COLD))
    ctx.pmap(_offset_task, tasks)
    ltasks = [(n, variant, params) for n in range(8, 3, -1) for variant, params in c02.combos()]
    ctx.pmap(_line_task, ltasks)
    ctx.note("letters", letters)
    ctx.note("offsets", OFFSETS)
    ctx.note("max_len", maxn)


def replay(sub, case, p):
    if case["kind"] == "meta":
        yA = np.asarray([case["yA"]], dtype=np.float64)
        yB = np.asarray([case["yB"]], dtype=np.float64)
        valid = yA != case["ndA"]
        what = case["what"]
        if what.startswith("offset"):
            c = int(what.split()[1])
            back = lambda o: o - c
        else:
            back = lambda o: o[:, ::-1]
        compare(case["variant"], case["params"], yA, case["ndA"], yB, case["ndB"], back, valid, what, p, sub)
    else:
        y = np.asarray([case["y"]], dtype=np.float64)
        out, _ = run_v(case["variant"], case["params"], y, case["nd"])
        if not np.array_equal(out[0], np.asarray(case["line"]).astype(np.int16)):
            p.violation(sub, {}, case, f"line not reproduced: {out[0].tolist()}")


def replay_finding(f, p):
    m = f["match"]
    y = np.asarray([m["y"]], dtype=np.float64)
    nd = -3000.0
    valid = y != nd
    c = int(m["what"].split()[1])
    compare(m["variant"], m["params"], y, nd, y + c, nd + c, lambda o: o - c, valid, m["what"], p, "offset")

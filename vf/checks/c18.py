"""C18 — run-length statistics equal the longest / current run of ones.

Model checking over the binary input trie: state = binary word (every prefix is an input), transition
= append a bit; a run-length automaton (current run, best run) is stepped along every edge and the real
lroo kernel is run on every node, with the edge relations lroo(s.0) == lroo(s) and
lroo(s) <= lroo(s.1) <= max(lroo(s), cr+1).  croo: every stored order of the time axis.
"""
from __future__ import annotations

import importlib
import itertools

import numpy as np

from .. import sse

LEVEL = "model_checking"
RULE = ("all binary words up to the length bound (trie), long-run family, non-binary words over {0,1,2}; croo: all "
        "permutations of the stored time order for words up to length 6, rotations/reversal up to 16; non-trivial = "
        "word containing a run of >= 2 ones (lroo) / latest step equal to 1 (croo)")
ASSUMPTIONS = ["the time axis allows runs up to its own length; lengths up to 70000 are explored (beyond uint16)"]


def _ops():
    import hdc.algo  # noqa: F401
    return importlib.import_module("hdc.algo.ops")


def ref_runs(w):
    """Reference automaton, vectorised over words: returns (current run at end, best run)."""
    N, n = w.shape
    cr = np.zeros(N, np.int64)
    best = np.zeros(N, np.int64)
    for i in range(n):
        cr = np.where(w[:, i] == 1, cr + 1, 0)
        best = np.maximum(best, cr)
    return cr, best


def lroo_of(w):
    return np.asarray(_ops().lroo(np.ascontiguousarray(w, dtype="uint8"))).astype(np.int64)


def check_lroo(w, p, sub):
    out = lroo_of(w)
    cr, best = ref_runs(w)
    exp = np.where(best >= 2, best, 0)
    bad = out != exp
    for j in np.nonzero(bad)[0][:5]:
        word = w[j].tolist()
        desc = word if len(word) <= 40 else f"<len {len(word)}, longest run {int(best[j])}>"
        p.violation(sub, {"kernel": "lroo", "word": desc},
                    {"kind": "lroo", "word": word if len(word) <= 64 else None, "rle": _rle(w[j])},
                    f"lroo({desc}) -> {int(out[j])}, expected {int(exp[j])}")
    return out, cr, best


def _rle(row):
    out, prev, cnt = [], None, 0
    for v in row.tolist():
        if v == prev:
            cnt += 1
        else:
            if prev is not None:
                out.append([int(prev), cnt])
            prev, cnt = v, 1
    out.append([int(prev), cnt])
    return out


def _unrle(rle):
    return np.concatenate([np.full(c, v, dtype="uint8") for v, c in rle])[None, :]


def _trie_task(n, p):
    w = sse.word_indices(2, n).astype("uint8")
    N = w.shape[0]
    out, cr, best = check_lroo(w, p, "lroo_trie")
    p.count("lroo_trie", evaluations=N, states=N, traces_validated_against_impl=N, nontrivial=int((best >= 2).sum()))
    if n > 1:
        par = sse.word_indices(2, n - 1).astype("uint8")
        pout = lroo_of(par)
        pcr, _ = ref_runs(par)
        po = pout[np.arange(N) // 2]
        pc = pcr[np.arange(N) // 2]
        last = w[:, -1]
        bad0 = (last == 0) & (out != po)
        bad1 = (last == 1) & ~((out >= po) & (out <= np.maximum(po, pc + 1)))
        p.count("lroo_trie", transitions=N)
        for j in np.nonzero(bad0 | bad1)[0][:5]:
            p.violation("lroo_trie_edge", {"kernel": "lroo", "word": w[j].tolist()},
                        {"kind": "lroo", "word": w[j].tolist(), "rle": _rle(w[j])},
                        f"edge relation broken: lroo({w[j, :-1].tolist()})={int(po[j])}, appending {int(last[j])} gives {int(out[j])}")
    if n == 6:
        p.sample("lroo_trie", {"word": w[27].tolist(), "lroo": int(out[27])})


def long_runs(ctx):
    sub = "lroo_long"
    lengths = [254, 255, 256, 257, 300, 511, 512, 1000]
    if ctx.thorough():
        lengths += [4095, 65535, 65536, 70000]
    for L in lengths:
        for total in sorted({L, L + 1, L + 7, max(1000, L + 50)}):
            for pos in ("start", "middle", "end"):
                rest = total - L
                if rest == 0 and pos != "start":
                    continue
                a = {"start": 0, "middle": rest // 2, "end": rest}[pos]
                row = np.zeros(total, "uint8")
                row[a:a + L] = 1
                # a second, shorter run and isolated ones elsewhere
                if a >= 6:
                    row[1:4] = 1
                if total - (a + L) >= 6:
                    row[-2:] = 1
                check_lroo(row[None, :], ctx, sub)
                ctx.count(sub, evaluations=1, nontrivial=1, states=1, traces_validated_against_impl=1)
    ctx.sample(sub, {"run_lengths": lengths, "positions": ["start", "middle", "end"]})


def nonbinary(ctx):
    sub = "lroo_nonbinary"
    for n in range(1, 9 if ctx.thorough() else 8):
        idx = sse.word_indices(3, n)
        w = np.array([0, 1, 2], dtype="uint8")[idx]
        out = lroo_of(w)
        _, best = ref_runs(w)
        exp = np.where(best >= 2, best, 0)
        ctx.count(sub, evaluations=len(w), nontrivial=int(((w == 2).any(axis=1) & (best >= 2)).sum()), states=len(w),
                  traces_validated_against_impl=len(w))
        for j in np.nonzero(out != exp)[0][:3]:
            ctx.violation(sub, {"kernel": "lroo", "word": w[j].tolist()}, {"kind": "lroo", "word": w[j].tolist(), "rle": _rle(w[j])},
                          f"lroo({w[j].tolist()}) -> {int(out[j])}, expected {int(exp[j])} (only ones count)")
    ctx.sample(sub, {"alphabet": [0, 1, 2], "max_len": 7})


TIME_START = "2000-01-01"


def _mkda(w, order=None, chunks=None):
    import pandas as pd
    import xarray as xr
    N, n = w.shape
    time = pd.date_range(TIME_START, periods=n, freq="10D")
    da = xr.DataArray(w.reshape(N, 1, n).astype("uint8"), dims=("y", "x", "time"), coords={"time": time})
    if order is not None:
        da = da.isel(time=list(order))
    if chunks:
        da = da.chunk(chunks)
    return da


def accessor_lroo(ctx):
    sub = "lroo_accessor"
    for n in (1, 2, 5, 9):
        w = sse.word_indices(2, n).astype("uint8")
        _, best = ref_runs(w)
        exp = np.where(best >= 2, best, 0)
        for name, da in (("numpy", _mkda(w)), ("dask", _mkda(w, chunks={"y": max(1, len(w) // 3), "time": -1}))):
            res = da.hdc.algo.lroo()
            got = np.asarray(res.values).reshape(-1).astype(np.int64)
            ctx.count(sub, evaluations=len(w), states=len(w), traces_validated_against_impl=len(w))
            if not np.array_equal(got, exp):
                j = int(np.nonzero(got != exp)[0][0])
                ctx.violation(sub, {"accessor": "lroo", "backend": name, "word": w[j].tolist()}, {"kind": "lroo_acc", "word": w[j].tolist(), "backend": name},
                              f"hdc.algo.lroo() [{name}] on {w[j].tolist()} -> {int(got[j])}, expected {int(exp[j])}")
    # long run through the accessor, numpy and dask (dtype declared for dask must hold the value)
    for L in (300, 1000):
        row = np.zeros((1, L + 20), "uint8")
        row[0, 5:5 + L] = 1
        for name, da in (("numpy", _mkda(row)), ("dask", _mkda(row, chunks={"time": -1}))):
            got = int(np.asarray(da.hdc.algo.lroo().values).reshape(-1)[0])
            ctx.count(sub, evaluations=1, nontrivial=1)
            if got != L:
                ctx.violation(sub, {"accessor": "lroo", "backend": name, "run": L}, {"kind": "lroo_acc_long", "run": L, "backend": name},
                              f"hdc.algo.lroo() [{name}] on a run of {L} ones -> {got}")
    ctx.sample(sub, {"words": "all binary words of length 1,2,5,9 as pixels", "backends": ["numpy", "dask"]})


def lroo_small_cubes(ctx):
    """lroo through the accessor on SMALL cubes in every layout: each binary word alone (1x1 cube), every pair of
    words of length <= 5 as a 1x2 cube, every triple of length <= 3 - so that a time step can be empty across the
    whole cube - as (y,x,time), (time,y,x) and (y,time,x), contiguous and as transposed views, numpy and dask."""
    import pandas as pd
    import xarray as xr
    sub = "lroo_small_cubes"

    def cubes():
        for n in range(1, 11):
            for w in sse.word_indices(2, n).astype("uint8"):
                yield w[None, :]
        for n in range(2, 6):
            W = sse.word_indices(2, n).astype("uint8")
            for a in W:
                for b in W:
                    yield np.stack([a, b])
        W = sse.word_indices(2, 3).astype("uint8")
        for a in W:
            for b in W:
                for c in W:
                    yield np.stack([a, b, c])

    n_c = 0
    for px in cubes():
        N, n = px.shape
        _, best = ref_runs(px)
        exp = np.where(best >= 2, best, 0)
        time = pd.date_range(TIME_START, periods=n, freq="10D")
        base = xr.DataArray(px.reshape(1, N, n).copy(), dims=("y", "x", "time"), coords={"time": time})
        variants = {
            "(y,x,time)": base,
            "(time,y,x) contiguous": xr.DataArray(np.ascontiguousarray(np.moveaxis(px.reshape(1, N, n), -1, 0)), dims=("time", "y", "x"), coords={"time": time}),
            "(time,y,x) view": base.transpose("time", "y", "x"),
            "(y,time,x) view": base.transpose("y", "time", "x"),
        }
        if n_c % 7 == 0:
            variants["(time,y,x) dask"] = variants["(time,y,x) contiguous"].chunk({"time": -1})
        n_c += 1
        for vname, da in variants.items():
            try:
                res = da.hdc.algo.lroo()
                got = np.asarray(res.transpose("y", "x").values).reshape(-1).astype(np.int64)
            except Exception as e:
                ctx.violation(sub, {"layout": vname, "pixels": px.tolist()}, {"kind": "lroo_small", "pixels": px.tolist()},
                              f"hdc.algo.lroo() on the {vname} cube with pixels {px.tolist()} raised {type(e).__name__}: {e}")
                continue
            ctx.count(sub, evaluations=N, states=1, traces_validated_against_impl=1, nontrivial=int((px.max(axis=0) == 0).any()))
            if not np.array_equal(got, exp):
                ctx.violation(sub, {"layout": vname, "pixels": px.tolist()}, {"kind": "lroo_small", "pixels": px.tolist()},
                              f"hdc.algo.lroo() on the {vname} cube with pixels {px.tolist()} -> {got.tolist()}, expected {exp.tolist()}")
    ctx.note("lroo_small_cubes", n_c)
    ctx.sample(sub, {"cubes": "every word of length <= 10 alone; every pair of length <= 5; every triple of length 3", "layouts": ["(y,x,time)", "(time,y,x) contiguous / view / dask", "(y,time,x) view"]})


def ref_croo(w, order):
    """w rows stored in `order` (order[i] = chronological index of stored position i)."""
    chron = np.empty_like(w)
    chron[:, list(order)] = w          # chron[:, order[i]] = w[:, i]
    cr, _ = ref_runs(chron)
    return cr


def check_croo(w_chron, order, ctx, sub, backend="numpy"):
    """w_chron: words in chronological order; stored order = permutation `order`."""
    n = w_chron.shape[1]
    da = _mkda(w_chron, order=order, chunks={"time": -1} if backend == "dask" else None)
    res = da.hdc.algo.croo()
    got = np.asarray(res.values).reshape(-1).astype(np.int64)
    cr, best = ref_runs(w_chron)
    bad = got != cr
    for j in np.nonzero(bad)[0][:3]:
        ctx.violation(sub, {"accessor": "croo", "word": w_chron[j].tolist(), "order": list(map(int, order))},
                      {"kind": "croo", "word": w_chron[j].tolist(), "order": list(map(int, order)), "backend": backend},
                      f"croo on chronological series {w_chron[j].tolist()} stored in order {list(order)} [{backend}] -> {int(got[j])}, expected {int(cr[j])}")
    lro = np.where(best >= 2, best, 0)
    bad2 = got > np.maximum(lro, 1)
    for j in np.nonzero(bad2 & ~bad)[0][:3]:
        ctx.violation(sub, {"accessor": "croo", "word": w_chron[j].tolist(), "order": list(map(int, order)), "what": "croo<=max(lroo,1)"},
                      {"kind": "croo", "word": w_chron[j].tolist(), "order": list(map(int, order)), "backend": backend},
                      f"croo {int(got[j])} > max(lroo,1) for {w_chron[j].tolist()}")
    return len(got)


def croo_all(ctx):
    sub = "croo"
    maxperm = 6
    for n in range(1, maxperm + 1):
        w = sse.word_indices(2, n).astype("uint8")
        cr, _ = ref_runs(w)
        nperm = 0
        for order in itertools.permutations(range(n)):
            k = check_croo(w, order, ctx, sub)
            nperm += 1
            ctx.count(sub, evaluations=k, states=k, transitions=k, traces_validated_against_impl=k)
        ctx.count(sub, nontrivial=int((cr >= 1).sum()) * nperm)
    for n in range(7, (17 if ctx.thorough() else 13)):
        w = sse.word_indices(2, n).astype("uint8")
        cr, _ = ref_runs(w)
        orders = [tuple(range(n)), tuple(range(n - 1, -1, -1))] + [tuple(np.roll(np.arange(n), r)) for r in range(1, n)]
        orders.append(tuple(list(range(0, n, 2)) + list(range(1, n, 2))))
        for order in orders:
            k = check_croo(w, order, ctx, sub)
            ctx.count(sub, evaluations=k, states=k, transitions=k, traces_validated_against_impl=k)
        ctx.count(sub, nontrivial=int((cr >= 1).sum()) * len(orders))
    # time axes before 1970, across 1970-01-01 and far in the past (nothing may depend on the epoch)
    global TIME_START
    for start in ("1969-11-20", "1951-03-01", "1800-01-05", "1969-12-22"):
        TIME_START = start
        try:
            for n in (3, 6):
                w = sse.word_indices(2, n).astype("uint8")
                cr, _ = ref_runs(w)
                for order in itertools.permutations(range(n)) if n == 3 else [tuple(range(n)), tuple(range(n - 1, -1, -1)), (3, 1, 5, 0, 4, 2), (5, 0, 1, 2, 3, 4)]:
                    k = check_croo(w, order, ctx, sub)
                    ctx.count(sub, evaluations=k, states=k, transitions=k, traces_validated_against_impl=k, nontrivial=int((cr >= 1).sum()))
        finally:
            TIME_START = "2000-01-01"
    # dask-backed
    w = sse.word_indices(2, 7).astype("uint8")
    for order in (tuple(range(7)), (3, 1, 6, 0, 5, 2, 4)):
        k = check_croo(w, order, ctx, sub, backend="dask")
        ctx.count(sub, evaluations=k)
    ctx.sample(sub, {"words": "all binary words", "orders": "all permutations for length <= 6; identity, reversal, rotations, interleave for longer"})


def croo_long(ctx):
    """Cubes with long time axes: every pixel = (length r of the run that ends at the latest step, an isolated 1
    exactly d steps before the latest step, beyond the run); all combinations sit in ONE cube, so what one pixel
    needs (a long walk back) cannot leak into its neighbours.  Stored chronologically, reversed and rotated."""
    sub = "croo_long"
    for n in (257, 300, 513, 1000):
        rs = [r for r in (0, 1, 2, 3, 127, 128, 129, 255, 256, 257, 300, 511, 512, 513, 999, n) if r <= n]
        ds = [None, "r+1", 64, 128, 255, 256, 257, 384, 511, 512, 513, 768]
        rows, tags = [], []
        for r in sorted(set(rs)):
            for d in ds:
                dd = r + 1 if d == "r+1" else d
                x = np.zeros(n, dtype="uint8")
                if r:
                    x[n - r:] = 1
                if dd is not None:
                    if dd <= r or dd >= n:
                        continue
                    x[n - 1 - dd] = 1
                rows.append(x)
                tags.append((r, dd))
        w = np.array(rows)
        cr, best = ref_runs(w)
        for name, order in (("chronological", tuple(range(n))), ("reversed", tuple(range(n - 1, -1, -1))), ("rotated", tuple(np.roll(np.arange(n), 101)))):
            for backend in ("numpy", "dask"):
                if backend == "dask" and name != "rotated":
                    continue
                da = _mkda(w, order=order, chunks={"time": -1, "y": 7} if backend == "dask" else None)
                got = np.asarray(da.hdc.algo.croo().values).reshape(-1).astype(np.int64)
                ctx.count(sub, evaluations=len(w), states=len(w), transitions=len(w), traces_validated_against_impl=len(w), nontrivial=int((cr > 0).sum()))
                for j in np.nonzero(got != cr)[0][:3]:
                    ctx.violation(sub, {"n": n, "run": tags[j][0], "extra_one_at": tags[j][1], "stored": name, "backend": backend}, {"kind": "croo_long"},
                                  f"croo on a cube of {len(w)} pixels x {n} steps ({name} storage, {backend}): the pixel whose current run has length {tags[j][0]}"
                                  f"{'' if tags[j][1] is None else ' and which has an isolated 1 ' + str(tags[j][1]) + ' steps before the latest step'} -> {int(got[j])}, expected {int(cr[j])}")
        # ... and every pixel as a cube of its own (in the big cube a pixel that needs the whole axis can make
        # the walk complete for all the others), plus the cube without its long-run pixels
        for name, order in (("chronological", tuple(range(n))), ("reversed", tuple(range(n - 1, -1, -1))), ("rotated", tuple(np.roll(np.arange(n), 101)))):
            subsets = [[j] for j in range(len(w))] + [[j for j in range(len(w)) if tags[j][0] < 64]]
            for rows_ in subsets:
                ws = w[rows_]
                got = np.asarray(_mkda(ws, order=order).hdc.algo.croo().values).reshape(-1).astype(np.int64)
                ctx.count(sub, evaluations=len(ws), states=1, transitions=1, traces_validated_against_impl=1, nontrivial=1)
                for q in np.nonzero(got != cr[rows_])[0][:2]:
                    j = rows_[q]
                    ctx.violation(sub, {"n": n, "run": tags[j][0], "extra_one_at": tags[j][1], "stored": name, "cube": "alone" if len(rows_) == 1 else "short runs only"},
                                  {"kind": "croo_long"},
                                  f"croo on a cube of {len(rows_)} pixel(s) x {n} steps ({name} storage): the pixel whose current run has length {tags[j][0]}"
                                  f"{'' if tags[j][1] is None else ' and which has an isolated 1 ' + str(tags[j][1]) + ' steps before the latest step'} -> {int(got[q])}, expected {int(cr[j])}")
    ctx.sample(sub, {"lengths": [257, 300, 513, 1000], "runs": "0..3, 127..129, 255..257, 300, 511..513, 999, n", "isolated_one_steps_back": [64, 128, 255, 256, 257, 384, 511, 512, 513, 768]})


def croo_joint(ctx):
    """ONE stored dask array under several time labellings (ascending, descending, rotated, interleaved), the lazy
    croo results evaluated in one graph - dask.compute(*results), one concat: each result follows its own labels."""
    import dask
    import pandas as pd
    import xarray as xr
    sub = "croo_joint"
    for n in (5, 9, 70):
        w = sse.word_indices(2, n).astype("uint8") if n <= 9 else np.array([[int((i * 7 + j * j) % 3 != 0) for i in range(n)] for j in range(24)], dtype="uint8")
        N = len(w)
        times = pd.date_range("2000-01-01", periods=n, freq="10D")
        stored = xr.DataArray(w.reshape(N, 1, n).copy(), dims=("y", "x", "time"), coords={"time": times}).chunk({"y": max(1, N // 3), "time": -1})
        orders = [tuple(range(n)), tuple(range(n - 1, -1, -1)), tuple(np.roll(np.arange(n), 2)), tuple(list(range(0, n, 2)) + list(range(1, n, 2)))]
        lazies = [stored.assign_coords(time=times[list(o)]).hdc.algo.croo() for o in orders]
        for how in ("dask.compute", "concat"):
            if how == "dask.compute":
                res = [np.asarray(r.values).reshape(-1) for r in dask.compute(*lazies)]
            else:
                cc = xr.concat(lazies, dim="labelling").compute()
                res = [np.asarray(cc.isel(labelling=k).values).reshape(-1) for k in range(len(orders))]
            for o, got in zip(orders, res):
                chron = np.empty_like(w)
                chron[:, list(o)] = w          # stored position i carries the label of chronological rank o[i]
                cr, _ = ref_runs(chron)
                ctx.count(sub, evaluations=N, states=1, transitions=1, traces_validated_against_impl=1, nontrivial=N)
                if not np.array_equal(got.astype(np.int64), cr):
                    j = int(np.nonzero(got.astype(np.int64) != cr)[0][0])
                    ctx.violation(sub, {"n": n, "how": how, "ranks": list(map(int, o))[:12]}, {"kind": "croo_joint"},
                                  f"croo of {len(orders)} time labellings of one stored dask array evaluated together ({how}), {n} steps: under the labelling with "
                                  f"chronological ranks {list(map(int, o))[:12]}... the stored series {w[j].tolist()[:20]} -> {int(got[j])}, expected {int(cr[j])}")
    ctx.sample(sub, {"lengths": [5, 9, 70], "labellings": ["ascending", "descending", "rotated", "interleaved"], "evaluation": ["dask.compute(*results)", "xr.concat(...).compute()"]})


def croo_sequences(ctx):
    """Operation sequences on ONE object: croo(), relabel the time axis in place, croo() again ... - every result
    must be the one for the labels the object carries at that moment (no remembered ordering)."""
    import pandas as pd
    import xarray as xr
    sub = "croo_sequences"
    n = 5
    w = sse.word_indices(2, n).astype("uint8")
    N = w.shape[0]
    times = pd.date_range("2000-01-01", periods=n, freq="10D")
    perms = list(itertools.permutations(range(n)))
    da = xr.DataArray(w.reshape(N, 1, n).copy(), dims=("y", "x", "time"), coords={"time": times})
    steps = 0
    for k, perm in enumerate(perms + perms[::-1][:20]):
        # stored position i now carries the label times[perm[i]]  (chronological rank perm[i])
        da["time"] = times[list(perm)]
        got = np.asarray(da.hdc.algo.croo().values).reshape(-1).astype(np.int64)
        chron = np.empty_like(w)
        chron[:, list(perm)] = w
        cr, _ = ref_runs(chron)
        steps += 1
        if not np.array_equal(got, cr):
            j = int(np.nonzero(got != cr)[0][0])
            ctx.violation(sub, {"step": k, "labels_rank": list(perm), "word": w[j].tolist()}, {"kind": "croo_seq"},
                          f"after {k} in-place relabelings of the same DataArray (current chronological ranks of the stored steps {list(perm)}): "
                          f"croo of stored series {w[j].tolist()} -> {int(got[j])}, expected {int(cr[j])}")
            break
    ctx.count(sub, evaluations=steps * N, states=steps, transitions=steps, traces_validated_against_impl=steps, nontrivial=steps)
    ctx.sample(sub, {"object": "one DataArray holding all 32 binary words of length 5", "sequence": "time labels reassigned in place through all 120 orders and back"})


def run(ctx):
    _ops().lroo(np.zeros((1, 2), "uint8"))
    maxn = 18 if ctx.thorough() else 16
    ctx.pmap(_trie_task, list(range(maxn, 0, -1)))
    ctx.note("lroo_trie_max_len", maxn)
    long_runs(ctx)
    nonbinary(ctx)
    accessor_lroo(ctx)
    lroo_small_cubes(ctx)
    croo_all(ctx)
    croo_long(ctx)
    croo_joint(ctx)
    croo_sequences(ctx)


def replay(sub, case, p):
    k = case["kind"]
    if k == "lroo":
        w = np.asarray([case["word"]], dtype="uint8") if case.get("word") is not None else _unrle(case["rle"])
        check_lroo(w, p, sub)
    elif k == "croo_seq":
        croo_sequences(p)
    elif k == "croo_long":
        croo_long(p)
    elif k == "croo_joint":
        croo_joint(p)
    elif k == "lroo_small":
        lroo_small_cubes(p)
    elif k == "croo":
        check_croo(np.asarray([case["word"]], dtype="uint8"), tuple(case["order"]), p, sub, case.get("backend", "numpy"))
    else:
        p.thorough = lambda: False
        accessor_lroo(p)

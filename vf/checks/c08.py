"""C08 — SPI preserves the ordering of observations and never wraps or crashes.

Bounded exhaustive product: (i) every word over {ND, neg, 0, 1, 2, 7, 30} up to the length bound with every
calibration window: nodata / negative cells come back as nodata, and inside each pixel the indices are a
non-decreasing function of the observed value (equal -> equal); (ii) extremes ladders: calibration windows
from a quantile family (shape 0.5..1e4) followed by observations base*10^k, k from -300 to +6: indices
non-decreasing along the ladder, never nodata, saturating (constant) once the reference index leaves int16;
(iii) bad-pixel placement: every kind of unfittable pixel at every position of a 2x2 cube of ordinary pixels,
three dtypes, grouped and ungrouped: no exception, bad pixel all nodata, ordinary pixels unchanged.
"""
from __future__ import annotations

import importlib
import itertools

import numpy as np
import scipy.special as sc

from .. import sse
from ..oracle import spi as O

LEVEL = "exploration"
RULE = ("words x windows (ordering), ladders (shape x scale x exponent), bad-pixel placements (kind x position x dtype "
        "x grouped); non-trivial = pixel with >= 2 distinct valid values that can be fitted (ordering), ladder rung "
        "beyond the calibration range, placement of a bad pixel next to ordinary ones")
ASSUMPTIONS = [
    "the statement does not name the saturation value: only order preservation (non-decreasing, constant beyond the "
    "point where the reference index leaves the int16 range) and 'never nodata for a valid observation' are demanded",
]

ND = -9999
NEG = -4


def _st():
    import hdc.algo  # noqa: F401
    return importlib.import_module("hdc.algo.ops.stats")


def check_order(out, x, p, sub, entry, window):
    """Per pixel: nodata / negative -> nodata; valid cells sorted by value have non-decreasing indices."""
    N, n = x.shape
    invalid = (x == ND) | (x < 0)
    o = out.astype(np.int64)
    bad_nd = invalid & (o != ND)
    # monotone: for every pair of valid cells a, b: x_a < x_b => o_a <= o_b ; x_a == x_b => o_a == o_b
    xs = np.where(invalid, np.inf, x)
    order = np.argsort(xs, axis=1, kind="stable")
    xsort = np.take_along_axis(xs, order, axis=1)
    osort = np.take_along_axis(o, order, axis=1)
    validp = np.isfinite(xsort[:, 1:]) & np.isfinite(xsort[:, :-1])
    fitted = ~((o == ND) | invalid).all(axis=1)     # pixel not returned as all-nodata
    # inside a fitted pixel every valid observation must have an index (not nodata)
    bad_missing = fitted[:, None] & ~invalid & (o == ND)
    dec = validp & fitted[:, None]
    bad_mono = dec & (osort[:, 1:] < osort[:, :-1])
    bad_eq = dec & (xsort[:, 1:] == xsort[:, :-1]) & (osort[:, 1:] != osort[:, :-1])
    bad = bad_nd.any(axis=1) | bad_mono.any(axis=1) | bad_eq.any(axis=1) | bad_missing.any(axis=1)
    for r in np.nonzero(bad)[0][:5]:
        why = ("nodata/negative cell not nodata" if bad_nd[r].any() else "valid observation returned as nodata inside a fitted pixel" if bad_missing[r].any()
               else "a larger observation got a smaller index" if bad_mono[r].any() else "equal observations got different indices")
        p.violation(sub, {"entry": entry, "x": x[r].tolist(), "window": list(window)},
                    {"kind": "order", "entry": entry, "x": x[r].tolist(), "window": list(window)},
                    f"{entry}: SPI of {x[r].tolist()} window {list(window)} -> {out[r].tolist()}: {why}")
    return int(fitted.sum())


def run_entry(entry, x, i, j, ND=None):
    st = _st()
    N, n = x.shape
    if ND is None:
        ND = globals()["ND"]
    if entry == "yxt_i16":
        return np.asarray(st.gammastd_yxt(x.astype("int16").reshape(N, 1, n), ND, i, j)).reshape(N, n)
    if entry == "yxt_f64":
        return np.asarray(st.gammastd_yxt(x.astype("float64").reshape(N, 1, n), ND, i, j)).reshape(N, n)
    if entry == "yxt_f32":
        return np.asarray(st.gammastd_yxt(x.astype("float32").reshape(N, 1, n), ND, i, j)).reshape(N, n)
    g = np.zeros(n, dtype="int16")
    ci = np.array([[i, j]], dtype="int16")
    if entry == "grp_i16":
        return np.asarray(st.gammastd_grp(x.astype("int16"), g, 1, ND, ci))
    if entry == "grp_f32":
        return np.asarray(st.gammastd_grp(x.astype("float32"), g, 1, ND, ci))
    raise ValueError(entry)


def _find_culprit(entry, x, i, j):
    for r in range(x.shape[0]):
        try:
            run_entry(entry, x[r:r + 1], i, j)
        except Exception:
            return r
    return 0


def _words_task(task, p):
    n, i, j, letters = task
    vals = [ND, NEG] + letters
    idx = sse.word_indices(len(vals), n)
    x = sse.render(idx, vals).astype(np.float64)
    sub = "ordering"
    for entry in ("yxt_i16", "grp_f32") if n >= 6 else ("yxt_i16", "yxt_f64", "grp_i16", "grp_f32"):
        try:
            out = run_entry(entry, x, i, j)
        except Exception as e:
            r = _find_culprit(entry, x, i, j)
            p.violation(sub, {"entry": entry, "x": x[r].tolist(), "window": [i, j]},
                        {"kind": "order", "entry": entry, "x": x[r].tolist(), "window": [i, j]},
                        f"{entry} raised {type(e).__name__}: {e} for pixel {x[r].tolist()} window [{i},{j}) (one bad pixel aborts the whole array)")
            continue
        nf = check_order(out, x, p, sub, entry, (i, j))
        p.count(sub, evaluations=x.shape[0], nontrivial=nf)
        # a negative value is not an observation: replacing it by nodata must leave every other index unchanged
        hasneg = (x == NEG).any(axis=1)
        if hasneg.any():
            x2 = np.where(x == NEG, ND, x)[hasneg]
            try:
                out2 = run_entry(entry, x2, i, j)
            except Exception:
                out2 = None
            if out2 is not None:
                o1 = out[hasneg]
                diff = (o1 != out2).any(axis=1)
                p.count("negatives_as_nodata", evaluations=int(hasneg.sum()), nontrivial=int(hasneg.sum()))
                xs = x[hasneg]
                for r in np.nonzero(diff)[0][:3]:
                    p.violation("negatives_as_nodata", {"entry": entry, "x": xs[r].tolist(), "window": [i, j]},
                                {"kind": "order", "entry": entry, "x": xs[r].tolist(), "window": [i, j]},
                                f"{entry}: SPI of {xs[r].tolist()} window [{i},{j}) -> {o1[r].tolist()}, but with the negative cells marked as nodata -> {out2[r].tolist()} "
                                f"(negative values must not count as observations)")
    if n == 4 and (i, j) == (0, 3):
        p.sample(sub, {"word": x[1234].tolist(), "window": [i, j]})


def _marker_task(task, p):
    """The marker chosen for nodata is only echoed: the same words (over nodata, a negative value and positive
    observations) with their missing cells written as -9999, as 0, as 7 and as 255 - a value that sorts among / above
    the data - give the same indices, nodata cells carrying the marker."""
    n, i, j = task
    sub = "marker_independence"
    pos = [1, 2, 9, 30]
    idx = sse.word_indices(2 + len(pos), n)
    base = sse.render(idx, [ND, NEG] + pos).astype(np.float64)
    for entry in ("yxt_i16", "yxt_f64", "grp_i16", "grp_f32"):
        try:
            ref = run_entry(entry, base, i, j)
        except Exception:
            continue        # reported by the ordering sub-check
        for marker in (0, 7, 255):
            x = np.where(base == ND, marker, base)
            try:
                out = run_entry(entry, x, i, j, ND=marker)
            except Exception as e:
                p.violation(sub, {"entry": entry, "marker": marker, "window": [i, j]}, {"kind": "marker", "n": n, "window": [i, j]},
                            f"{entry} with nodata={marker} raised {type(e).__name__}: {e} (the same words with nodata=-9999 are fine)")
                continue
            exp = np.where(ref == ND, marker, ref)
            bad = (out != exp).any(axis=1)
            p.count(sub, evaluations=x.shape[0], nontrivial=int((idx == 0).any(axis=1).sum()))
            for r in np.nonzero(bad)[0][:3]:
                p.violation(sub, {"entry": entry, "marker": marker, "x": x[r].tolist(), "window": [i, j]}, {"kind": "marker", "n": n, "window": [i, j]},
                            f"{entry}: SPI of {x[r].tolist()} with nodata={marker}, window [{i},{j}) -> {out[r].tolist()}; the same series with its missing cells "
                            f"written as -9999 gives {ref[r].tolist()} (only the marker may differ)")
    if n == 4 and (i, j) == (0, 4):
        p.sample(sub, {"markers": [-9999, 0, 7, 255], "alphabet": ["ND", NEG] + pos})


# ------------------------------------------------------------------ extremes ladders
EXPS = [-300, -100, -30, -10, -5, -3, -2, -1, 0, 0.3, 0.5, 1, 2, 3, 6]


def ladders(ctx):
    st = _st()
    sub = "ladders"
    shapes = [0.5, 1, 2, 10, 100, 1000, 1e4]
    scales = [0.1, 1, 100, 1e4]
    ncal = 8
    for a, scale in itertools.product(shapes, scales):
        q = (np.arange(ncal) + 0.5) / ncal
        cal = scale * sc.gammaincinv(a, q)
        base = float(np.median(cal))
        for with_zero in (False, True):
            rungs = np.array([base * 10.0 ** k for k in EXPS])
            series = np.concatenate([cal, [0.0] if with_zero else [], rungs])
            n = len(series)
            r0 = n - len(rungs)
            for dtype in ("float64", "float32", "int16"):
                if dtype == "int16":
                    s2 = np.round(np.clip(series, 0, 30000))
                    if len(set(s2[:ncal].tolist())) < 3:
                        continue
                else:
                    s2 = series.astype(dtype).astype(np.float64)
                key = {"shape": a, "scale": scale, "zero": with_zero, "dtype": dtype}
                case = {"kind": "ladder", "series": s2.tolist(), "ncal": ncal, "dtype": dtype}
                for entry in ("yxt", "grp"):
                    try:
                        if entry == "yxt":
                            out = np.asarray(st.gammastd_yxt(s2.astype(dtype).reshape(1, 1, n), ND, 0, ncal)).reshape(n)
                        else:
                            if dtype == "float64":
                                continue
                            out = np.asarray(st.gammastd_grp(s2.astype(dtype).reshape(1, n), np.zeros(n, "int16"), 1, ND,
                                                             np.array([[0, ncal]], "int16"))).reshape(n)
                    except Exception as e:
                        ctx.violation(sub, dict(key, entry=entry), case, f"ladder {key} [{entry}] raised {type(e).__name__}: {e}")
                        continue
                    ctx.count(sub, evaluations=1, nontrivial=1)
                    o = out.astype(np.int64)
                    xs = s2
                    msg = None
                    if (o == ND).all():
                        msg = "fittable pixel returned as all nodata"
                    else:
                        order = np.argsort(xs, kind="stable")
                        xo, oo = xs[order], o[order]
                        if (oo == ND).any():
                            t = int(np.nonzero(oo == ND)[0][0])
                            msg = f"valid observation {xo[t]!r} returned as nodata"
                        elif (np.diff(oo) < 0).any():
                            t = int(np.nonzero(np.diff(oo) < 0)[0][0])
                            msg = f"observation {xo[t]!r} -> {int(oo[t])} but larger observation {xo[t+1]!r} -> {int(oo[t+1])}"
                        elif ((np.diff(xo) == 0) & (np.diff(oo) != 0)).any():
                            msg = "equal observations received different indices"
                    if msg:
                        ctx.violation(sub, dict(key, entry=entry), case,
                                      f"ladder shape={a} scale={scale} zero={with_zero} {dtype} [{entry}]: {msg}; series {np.array2string(s2, precision=4)} -> {out.tolist()}")
    ctx.sample(sub, {"shapes": shapes, "scales": scales, "exponents": EXPS, "dtypes": ["float64", "float32", "int16"]})


def fine_ladders(ctx):
    """Dense ladders: observations at 321 closely spaced quantile levels (z from -6 to 6 sigma in steps of 0.0375) of
    the calibration distribution, for pixels with and without zeros: the index must be non-decreasing all the way
    (a formula that switches branch in a tail shows as a downward jump between neighbouring rungs)."""
    st = _st()
    sub = "fine_ladders"
    zs = np.linspace(-6, 6, 321)
    lev = sc.ndtr(zs)
    for a, scale in itertools.product((0.5, 2, 10, 100), (1, 100)):
        ncal = 30
        cal = scale * sc.gammaincinv(a, (np.arange(ncal) + 0.5) / ncal)
        for zshare in (0.0, 0.2, 0.5, 0.8):
            rungs = scale * sc.gammaincinv(a, lev)
            rungs = rungs[(rungs > 0) & np.isfinite(rungs)]
            rungs = np.unique(rungs)
            npos = ncal + len(rungs)
            nzero = int(round(zshare / (1 - zshare) * npos)) if zshare else 0
            series = np.concatenate([cal, np.zeros(nzero), rungs])
            for dtype in ("float64", "float32"):
                s2 = series.astype(dtype).astype(np.float64)
                n = len(s2)
                key = {"shape": a, "scale": scale, "zero_share": zshare, "dtype": dtype}
                case = {"kind": "fine", **key}
                for entry in ("yxt", "grp"):
                    if entry == "grp" and dtype == "float64":
                        continue
                    try:
                        if entry == "yxt":
                            out = np.asarray(st.gammastd_yxt(s2.astype(dtype).reshape(1, 1, n), ND, 0, ncal)).reshape(n)
                        else:
                            out = np.asarray(st.gammastd_grp(s2.astype(dtype).reshape(1, n), np.zeros(n, "int16"), 1, ND, np.array([[0, ncal]], "int16"))).reshape(n)
                    except Exception as e:
                        ctx.violation(sub, dict(key, entry=entry), case, f"fine ladder {key} [{entry}] raised {type(e).__name__}: {e}")
                        continue
                    ctx.count(sub, evaluations=1, nontrivial=int(zshare > 0))
                    o = out.astype(np.int64)
                    order = np.argsort(s2, kind="stable")
                    xo, oo = s2[order], o[order]
                    msg = None
                    if (oo == ND).any():
                        t = int(np.nonzero(oo == ND)[0][0])
                        msg = f"valid observation {xo[t]!r} returned as nodata"
                    elif (np.diff(oo) < 0).any():
                        t = int(np.nonzero(np.diff(oo) < 0)[0][0])
                        msg = f"observation {xo[t]!r} -> {int(oo[t])} but the larger observation {xo[t + 1]!r} -> {int(oo[t + 1])}"
                    elif ((np.diff(xo) == 0) & (np.diff(oo) != 0)).any():
                        msg = "equal observations received different indices"
                    if msg:
                        ctx.violation(sub, dict(key, entry=entry), case, f"fine ladder shape={a} scale={scale} zeros={zshare} {dtype} [{entry}]: {msg}")
    ctx.sample(sub, {"levels": "Phi(z), z = -6..6 step 0.0375", "shapes": [0.5, 2, 10, 100], "zero_shares": [0, 0.2, 0.5, 0.8]})


# ------------------------------------------------------------------ bad pixel placement
def bad_pixels(n):
    return {
        "all_nodata": np.full(n, ND, dtype=np.float64),
        "all_negative": np.full(n, -3.0),
        "negative_and_nodata": np.array([ND if t % 2 else -7.0 for t in range(n)], dtype=np.float64),
        "all_zero": np.zeros(n),
        "mostly_zero": np.array([0.0] * (n - 1) + [5.0]) if n >= 11 else None,
        "constant": np.full(n, 6.0),
        "no_positive_in_window": np.array([0.0, 0.0, 0.0] + [3.0, 4.0, 9.0, 2.0, 8.0, 1.0, 5.0, 7.0, 6.0][: n - 3]),
        "single_valid": np.array([ND] * (n - 1) + [4.0], dtype=np.float64),
    }


def placement(ctx):
    import pandas as pd
    import xarray as xr
    sub = "placement"
    n = 12
    ordinary = np.array([
        [3, 7, 1, 30, 2, 9, 4, 15, 6, 11, 8, 5],
        [10, 0, 12, 0, 7, 33, 2, 0, 5, 21, 9, 14],
        [1, 2, 3, 4, 5, 6, 7, 8, 9, 10, 11, 12],
        [40, 35, 30, 2, 0, 7, ND, 12, 18, 1, 3, 26],
    ], dtype=np.float64)
    time = pd.date_range("2000-01-01", periods=n, freq="10D")
    groups = [0, 1] * (n // 2)
    kinds = {k: v for k, v in bad_pixels(n).items() if v is not None}
    cal_kw = {"no_positive_in_window": {"calibration_end": str(time[2].date())}}
    for dtype in ("int16", "float32", "float64"):
        for kind, bad in kinds.items():
            for pos in range(4):
                cube = ordinary.copy()
                cube[pos] = bad
                arr = cube.astype(dtype).reshape(2, 2, n)
                da = xr.DataArray(arr, dims=("y", "x", "time"), coords={"time": time}, attrs={"nodata": ND})
                for grouped in (False, True):
                    if dtype == "float64" and grouped:
                        continue  # gammastd_grp has no float64 signature: covered by C12/C13 casting rules
                    kw = dict(cal_kw.get(kind, {}))
                    if kind == "no_positive_in_window" and grouped:
                        continue
                    if grouped:
                        kw["groups"] = groups
                    key = {"kind_of_pixel": kind, "position": pos, "dtype": dtype, "grouped": grouped}
                    case = {"kind": "placement", **key}
                    try:
                        res = da.hdc.algo.spi(**kw).transpose("y", "x", "time").values.reshape(4, n)
                    except Exception as e:
                        ctx.violation(sub, key, case, f"spi() raised {type(e).__name__}: {e} because of one {kind} pixel at position {pos} ({dtype}, grouped={grouped})")
                        continue
                    ctx.count(sub, evaluations=1, nontrivial=1)
                    # kinds the statement lists as unfittable: no valid cell, no positive value in the window,
                    # more than 90% zeros.  (constant / single-valid pixels and per-group shares are not listed.)
                    must_nd = kind in ("all_nodata", "all_negative", "negative_and_nodata", "all_zero", "no_positive_in_window") or \
                        (kind == "mostly_zero" and not grouped)
                    if must_nd and not (res[pos] == ND).all():
                        ctx.violation(sub, key, case, f"{kind} pixel {bad.tolist()} came back as {res[pos].tolist()} instead of all nodata ({dtype}, grouped={grouped})")
                    # ordinary pixels: equal to what they give alone
                    for q in range(4):
                        if q == pos:
                            continue
                        alone = xr.DataArray(ordinary[q].astype(dtype).reshape(1, 1, n), dims=("y", "x", "time"), coords={"time": time}, attrs={"nodata": ND})
                        exp = alone.hdc.algo.spi(**kw).values.reshape(n)
                        if not np.array_equal(res[q], exp):
                            ctx.violation(sub, dict(key, other=q), case,
                                          f"ordinary pixel {q} changed because of the {kind} pixel at {pos}: {res[q].tolist()} vs alone {exp.tolist()}")
    ctx.sample(sub, {"bad_kinds": list(kinds), "positions": 4, "dtypes": ["int16", "float32", "float64"], "grouped": [False, True]})


def zero_share(ctx):
    """The 90 % rule is about the share of zeros among the VALID observations.  Every pixel made of z zeros, the two
    positives 3 and 8 and k invalid cells (nodata, negative, or both) for every z <= 40, k <= 20, in three
    arrangements: more than 90 % zeros (z >= 19) -> nodata everywhere; otherwise every valid cell gets an index."""
    sub = "zero_share"
    by_len = {}
    for z in range(0, 41):
        for k in range(0, 21):
            for inv_name, inv in (("nodata", [ND]), ("negative", [-4.0]), ("mixed", [ND, -4.0])):
                if k == 0 and inv_name != "nodata":
                    continue
                invalid = [inv[t % len(inv)] for t in range(k)]
                cells = {"zeros_first": [0.0] * z + [3.0, 8.0] + invalid,
                         "invalid_first": invalid + [3.0] + [0.0] * z + [8.0],
                         "interleaved": None}
                a, b = [0.0] * z + [3.0, 8.0], list(invalid)
                mix = []
                while a or b:
                    if a:
                        mix.append(a.pop(0))
                    if b:
                        mix.append(b.pop(0))
                cells["interleaved"] = mix
                for arr_name, c in cells.items():
                    by_len.setdefault(len(c), []).append((z, k, inv_name, arr_name, c))
    for n, rows in sorted(by_len.items()):
        if n < 3:
            continue
        x = np.array([r[4] for r in rows], dtype=np.float64)
        for entry in ("yxt_i16", "yxt_f64", "grp_i16", "grp_f32"):
            try:
                out = run_entry(entry, x, 0, n)
            except Exception as e:
                ctx.violation(sub, {"entry": entry, "n": n}, {"kind": "zero_share"}, f"{entry} raised {type(e).__name__}: {e} on zero-share pixels of length {n}")
                continue
            for r, (z, k, inv_name, arr_name, c) in enumerate(rows):
                valid = (x[r] != ND) & (x[r] >= 0)
                unfittable = z / (z + 2) > 0.9
                ctx.count(sub, evaluations=1, states=1, nontrivial=int(k > 0))
                if unfittable:
                    ok = (out[r] == ND).all()
                    want = "nodata everywhere (more than 90 % of the valid cells are zero)"
                else:
                    ok = (out[r][valid] != ND).all() and (out[r][~valid] == ND).all()
                    want = "an index for every valid cell and nodata for the others (at most 90 % of the valid cells are zero)"
                if not ok:
                    ctx.violation(sub, {"entry": entry, "zeros": z, "invalid": k, "invalid_kind": inv_name, "arrangement": arr_name}, {"kind": "zero_share"},
                                  f"{entry}: pixel with {z} zeros, positives 3 and 8 and {k} {inv_name} cells ({arr_name}, length {n}) -> {out[r].tolist()}; expected {want}")
    ctx.sample(sub, {"zeros": "0..40", "invalid_cells": "0..20 (nodata / negative / mixed)", "arrangements": ["zeros_first", "invalid_first", "interleaved"], "positives": [3, 8]})


def run(ctx):
    st = _st()
    z = np.array([[[1, 2, 7, 30]]])
    for dt in ("int16", "float64", "float32"):
        st.gammastd_yxt(z.astype(dt), ND, 0, 4)
    g = np.zeros(4, "int16"); ci = np.array([[0, 4]], "int16")
    st.gammastd_grp(z[0].astype("int16"), g, 1, ND, ci); st.gammastd_grp(z[0].astype("float32"), g, 1, ND, ci)
    letters = [0, 1, 2, 7, 30] if ctx.seed == 0 else [0] + sorted(sse.seeded_rng(ctx.seed, "c08").sample(range(1, 400), 4))
    maxn = 6 if ctx.thorough() else 5
    tasks = [(n, i, j, letters) for n in range(maxn, 2, -1) for i in range(n) for j in range(i + 2, n + 1)]
    ctx.pmap(_words_task, tasks)
    ctx.pmap(_marker_task, [(n, i, j) for n in (5, 4, 3) for i in range(n) for j in range(i + 2, n + 1)])
    ctx.note("alphabet", ["ND", NEG] + letters)
    ctx.note("max_len", maxn)
    ladders(ctx)
    fine_ladders(ctx)
    placement(ctx)
    zero_share(ctx)
    from . import c07
    c07.nodata_argument(ctx)        # spi(nodata=v) x state of the attribute: never raises, nodata cells echo v


def replay(sub, case, p):
    k = case["kind"]
    if k == "order":
        x = np.asarray([case["x"]], dtype=np.float64)
        i, j = case["window"]
        try:
            out = run_entry(case["entry"], x, i, j)
        except Exception as e:
            p.violation(sub, {}, case, f"raised {type(e).__name__}: {e}")
            return
        check_order(out, x, p, sub, case["entry"], (i, j))
    elif k == "ladder":
        ladders(p)
    elif k == "fine":
        fine_ladders(p)
    elif k == "zero_share":
        zero_share(p)
    elif k == "nd_arg":
        from . import c07
        c07.nodata_argument(p)
    elif k == "marker":
        _marker_task((case["n"], case["window"][0], case["window"][1]), p)
    else:
        placement(p)

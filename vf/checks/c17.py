"""C17 — rolling sum and grouped mean reduce exactly the valid cells.

Model checking over the input trie: state = word over {ND, letters} (every prefix is itself an
input), transition = append one symbol.  A sliding-window reference automaton (count of valid
cells, sum of valid cells of the last `window` symbols) is stepped along every edge and the real
compiled kernel is run on every node; the edge relation "the result for s.a restricted to s equals
the result for s" (causality) is checked on every transition.
"""
from __future__ import annotations

import itertools
import sys
from fractions import Fraction

import numpy as np

from .. import sse

LEVEL = "model_checking"
RULE = ("rolling_sum: all words over {ND,4 letters} up to the length bound x every window 1..len x "
        "3 nodata renderings x dtypes; non-trivial = (word, window) whose window at the last "
        "position mixes nodata and valid cells or is all nodata. mean_grp: every surjective "
        "labeling x every word over {ND,a,b}; non-trivial = a group with both nodata and valid "
        "cells or no valid cell")
ASSUMPTIONS = [
    "a window mixing nodata and valid cells may yield either nodata or the sum of the valid cells "
    "(the statement allows both); the repository's own test_rolling_sum pins the second reading",
    "integer sums are compared exactly; float32 outputs of mean_grp are allowed 1 ulp",
]


def _stats():
    import importlib
    import hdc.algo  # noqa: F401
    return importlib.import_module("hdc.algo.ops.stats")


def letters_for(seed):
    if seed == 0:
        return [-3, 0, 1, 2]
    rng = sse.seeded_rng(seed, "c17")
    vals = rng.sample([v for v in range(-20, 21) if v != 0], 3) + [0]
    return sorted(vals)


def renderings(letters, maxlen):
    inside = next(v for v in range(min(letters) + 1, 200) if v not in letters)
    return [-9999, 255, inside]


# --------------------------------------------------------------------- rolling_sum
def check_rolling(vals, valid, window, nodata, dtype, p, sub, check_prefix_of=None):
    """vals: (N,n) concrete words (ND rendered as nodata); valid: (N,n) bool.

    Returns the kernel output (N,n) float32.  Records violations into p.
    """
    st = _stats()
    N, n = vals.shape
    x = vals.astype(dtype)
    try:
        out = st.rolling_sum(x, window, nodata)
    except Exception as e:  # an in-contract call must not raise
        for i in range(min(N, 3)):
            p.violation(sub, {"kernel": "rolling_sum", "word": x[i].tolist(), "window": window},
                        {"kind": "rolling", "word": vals[i].tolist(), "valid": valid[i].tolist(),
                         "window": window, "nodata": nodata, "dtype": dtype},
                        f"rolling_sum raised {type(e).__name__}: {e}")
        return None
    out = np.asarray(out)
    # reference automaton, vectorised: state at position i = (count_valid, sum_valid) of the window
    v = np.where(valid, vals, 0).astype(np.int64)
    cs = np.concatenate([np.zeros((N, 1), np.int64), np.cumsum(v, axis=1)], axis=1)
    cc = np.concatenate([np.zeros((N, 1), np.int64), np.cumsum(valid.astype(np.int64), axis=1)], axis=1)
    bad_total = 0
    nd_out = float(np.asarray(nodata).astype(out.dtype))      # the sentinel as the output dtype (float32) can echo it
    for i in range(window - 1, n):
        s = cs[:, i + 1] - cs[:, i + 1 - window]
        c = cc[:, i + 1] - cc[:, i + 1 - window]
        o = out[:, i].astype(np.float64)
        s_out = s.astype(out.dtype).astype(np.float64)
        ok_full = (c == window) & (o == s_out)
        ok_none = (c == 0) & (o == nd_out)
        ok_mixed = (c > 0) & (c < window) & ((o == s_out) | (o == nd_out))
        bad = ~(ok_full | ok_none | ok_mixed)
        if bad.any():
            for j in np.nonzero(bad)[0][:5]:
                adm = ([float(s[j])] if c[j] == window else [float(nodata)] if c[j] == 0
                       else [float(nodata), float(s[j])])
                p.violation(
                    sub,
                    {"kernel": "rolling_sum", "word": x[j].tolist(), "window": window, "pos": i},
                    {"kind": "rolling", "word": vals[j].tolist(), "valid": valid[j].tolist(),
                     "window": window, "nodata": nodata, "dtype": dtype},
                    f"rolling_sum({x[j].tolist()} {dtype}, window={window}, nodata={nodata}) -> "
                    f"{out[j].tolist()}; position {i}: admissible {adm}, got {float(o[j])}")
            bad_total += int(bad.sum())
    return out


def _rolling_task(task, p):
    n, letters, nds, dtypes = task
    k = 5
    idx = sse.word_indices(k, n)
    N = idx.shape[0]
    valid = idx != 0
    names = ["ND"] + [str(v) for v in letters]
    # the trie edge relation needs the outputs for the parents: recompute them here (cheap)
    pidx = sse.word_indices(k, n - 1) if n > 1 else None
    for dtype in dtypes:
        abstract = {}
        for nd in nds:
            vals = sse.render(idx, [nd] + letters).astype(np.int64)
            pvals = sse.render(pidx, [nd] + letters).astype(np.int64) if n > 1 else None
            for w in range(1, n + 1):
                sub = "rolling_kernel"
                out = check_rolling(vals, valid, w, nd, dtype, p, sub)
                p.count(sub, evaluations=N, states=N, traces_validated_against_impl=N)
                if out is None:
                    continue
                # non-trivial: last window mixed or all-ND
                c_last = valid[:, n - w:].sum(axis=1)
                if dtype == "int16" and nd == nds[0]:
                    p.count(sub, nontrivial=int((c_last < w).sum()))
                # edge relation: restriction to the parent equals the parent's own result
                if n > 1 and w <= n - 1:
                    pout = np.asarray(_stats().rolling_sum(pvals.astype(dtype), w, nd))
                    child_restr = out[:, w - 1:n - 1]
                    par = pout[np.arange(N) // k][:, w - 1:]
                    bad = (child_restr != par).any(axis=1)
                    p.count(sub, transitions=N)
                    for j in np.nonzero(bad)[0][:5]:
                        p.violation(
                            "rolling_causality",
                            {"kernel": "rolling_sum", "word": vals[j].astype(dtype).tolist(), "window": w},
                            {"kind": "rolling_edge", "word": vals[j].tolist(), "valid": valid[j].tolist(),
                             "window": w, "nodata": nd, "dtype": dtype},
                            f"appending {vals[j, -1]} changed earlier outputs: prefix gives "
                            f"{pout[j // k].tolist()}, extended word gives {out[j].tolist()}")
                elif n > 1:
                    p.count(sub, transitions=N)
                # abstract outcome for cross-rendering comparison (positions >= w-1)
                o = out[:, w - 1:].astype(np.float64)
                is_nd = o == nd
                abstract[(nd, w)] = (is_nd, np.where(is_nd, 0, o))
        # renderings must correspond: same nodata/value decision at every position unless the
        # valid sum collides with the placeholder value
        sub = "rolling_renderings"
        for w in range(1, n + 1):
            base_nd = nds[0]
            b_isnd, b_val = abstract.get((base_nd, w), (None, None))
            if b_isnd is None:
                continue
            v0 = np.where(valid, sse.render(idx, [0] + letters), 0).astype(np.int64)
            cs = np.concatenate([np.zeros((N, 1), np.int64), np.cumsum(v0, axis=1)], axis=1)
            sums = cs[:, w:] - cs[:, :-w] if w <= n else None
            for nd in nds[1:]:
                r_isnd, r_val = abstract[(nd, w)]
                collide = (sums == nd) | (sums == base_nd)
                diff = ((b_isnd != r_isnd) | (b_val != r_val)) & ~collide
                p.count(sub, evaluations=N)
                for j in np.nonzero(diff.any(axis=1))[0][:5]:
                    word = [names[t] for t in idx[j]]
                    p.violation(
                        sub, {"kernel": "rolling_sum", "abstract_word": word, "window": w, "nd": [base_nd, nd]},
                        {"kind": "rolling_render", "idx": idx[j].tolist(), "letters": letters,
                         "window": w, "nds": [base_nd, nd], "dtype": dtype},
                        f"word {word} window {w} {dtype}: result with nodata={base_nd} does not "
                        f"correspond to result with nodata={nd}")
    if n <= 3:
        for j in range(min(N, 2)):
            p.sample("rolling_kernel", {"word": [names[t] for t in idx[N - 1 - j]], "windows": f"1..{n}",
                                        "dtypes": dtypes, "nodata_renderings": nds})


def rolling_accessor(ctx, letters, nds, maxn):
    """The words as pixels of a cube through DataArray.hdc.rolling.sum."""
    import pandas as pd
    import xarray as xr
    st = _stats()
    sub = "rolling_accessor"
    k = 5
    for n in range(1, maxn + 1):
        idx = sse.word_indices(k, n)
        N = idx.shape[0]
        nd = nds[0]
        vals = sse.render(idx, [nd] + letters).astype("int16")
        time = pd.date_range("2000-01-01", periods=n, freq="10D")
        for w in range(1, n + 1):
            kern = np.asarray(st.rolling_sum(vals, w, nd))
            variants = []
            da = xr.DataArray(vals.reshape(N, 1, n), dims=("y", "x", "time"), coords={"time": time},
                              attrs={"nodata": nd})
            variants.append(("attr", da.hdc.rolling.sum(w)))
            da2 = da.copy()
            da2.attrs = {}
            variants.append(("arg", da2.hdc.rolling.sum(w, nodata=nd)))
            da3 = da.copy()
            da3.attrs = {"nodata": 12345}
            variants.append(("arg_over_attr", da3.hdc.rolling.sum(w, nodata=nd)))
            da4 = xr.DataArray(vals.reshape(N, n, 1), dims=("y", "step", "time"), attrs={"nodata": nd})
            r4 = da4.hdc.rolling.sum(w, dimension="step")
            variants.append(("dimension", r4.transpose("y", "time", "step")))
            for name, res in variants:
                got = np.asarray(res.values).reshape(N, -1)
                ctx.count(sub, evaluations=N)
                exp = kern[:, w - 1:]
                if got.shape != exp.shape or not np.array_equal(got, exp):
                    j = 0
                    if got.shape == exp.shape:
                        j = int(np.nonzero((got != exp).any(axis=1))[0][0])
                    ctx.violation(
                        sub, {"accessor": "rolling.sum", "variant": name, "word": vals[j].tolist(), "window": w},
                        {"kind": "rolling_acc", "word": vals[j].tolist(), "window": w, "nodata": nd, "variant": name},
                        f"hdc.rolling.sum({w}) [{name}] on {vals[j].tolist()}: expected the kernel result "
                        f"without its first {w - 1} positions {exp[j].tolist() if got.shape == exp.shape else exp.shape}, "
                        f"got {got[j].tolist() if got.shape == exp.shape else got.shape}")
                if name != "dimension" and n - w + 1 > 0:
                    if list(res["time"].values) != list(time.values[w - 1:]):
                        ctx.violation(sub, {"accessor": "rolling.sum", "variant": name, "n": n, "window": w, "what": "coords"},
                                      {"kind": "rolling_acc", "word": vals[0].tolist(), "window": w, "nodata": nd, "variant": name},
                                      "time coordinate of the result is not the trimmed input coordinate")
    ctx.sample(sub, {"cube": "all words of length 1..%d as pixels" % maxn, "variants": ["attr", "arg", "arg_over_attr", "dimension"]})


# --------------------------------------------------------------------- mean_grp
def check_mean_grp(vals, valid, labels, ngroups, nodata, dtype, p, sub="mean_grp_kernel"):
    st = _stats()
    N, n = vals.shape
    x = vals.astype(dtype)
    g = np.asarray(labels, dtype="int16")
    try:
        out = np.asarray(st.mean_grp(x, g, ngroups, nodata))
    except Exception as e:
        p.violation(sub, {"kernel": "mean_grp", "labels": list(labels), "dtype": dtype},
                    {"kind": "mean_grp", "word": vals[0].tolist(), "valid": valid[0].tolist(),
                     "labels": list(labels), "nodata": nodata, "dtype": dtype},
                    f"mean_grp raised {type(e).__name__}: {e}")
        return None
    exp = np.empty((N, n), dtype=np.float64)
    for grp in range(ngroups):
        m = g == grp
        vv = np.where(valid[:, m], vals[:, m], 0).astype(np.float64)
        cnt = valid[:, m].sum(axis=1)
        with np.errstate(all="ignore"):
            mean = np.where(cnt > 0, vv.sum(axis=1) / np.maximum(cnt, 1), nodata)
        exp[:, m] = mean[:, None]
    exp32 = exp.astype(np.float32)
    tol = np.spacing(np.abs(exp32)).astype(np.float64)
    bad = ~(np.abs(out.astype(np.float64) - exp32.astype(np.float64)) <= tol)
    for j in np.nonzero(bad.any(axis=1))[0][:5]:
        # exact rational reference for the reported case
        ref = []
        for t in range(n):
            cells = [Fraction(int(vals[j, u])) for u in range(n) if g[u] == g[t] and valid[j, u]]
            ref.append(float(sum(cells) / len(cells)) if cells else float(nodata))
        p.violation(
            sub, {"kernel": "mean_grp", "word": x[j].tolist(), "labels": list(map(int, labels)), "dtype": dtype},
            {"kind": "mean_grp", "word": vals[j].tolist(), "valid": valid[j].tolist(),
             "labels": list(map(int, labels)), "nodata": nodata, "dtype": dtype},
            f"mean_grp({x[j].tolist()} {dtype}, groups={list(map(int, labels))}, nodata={nodata}) -> "
            f"{out[j].tolist()}, reference {ref}")
    return out


def _mean_grp_task(task, p):
    n, ab, nds, dtypes, maxk = task
    idx = sse.word_indices(3, n)
    N = idx.shape[0]
    valid = idx != 0
    sub = "mean_grp_kernel"
    for k in range(1, min(maxk, n) + 1):
        for labels in sse.surjective_labelings(n, k):
            g = np.asarray(labels)
            nontriv = 0
            for grp in range(k):
                c = valid[:, g == grp].sum(axis=1)
                nontriv += int(((c == 0) | (c < (g == grp).sum())).sum())
            p.count(sub, nontrivial=min(nontriv, N))
            for dtype in dtypes:
                outs = []
                for nd in nds:
                    vals = sse.render(idx, [nd] + ab).astype(np.int64)
                    out = check_mean_grp(vals, valid, labels, k, nd, dtype, p)
                    p.count(sub, evaluations=N, states=N, traces_validated_against_impl=N)
                    if out is not None:
                        # abstract: nodata -> NaN marker
                        outs.append((nd, np.where(out == np.float32(nd), np.nan, out)))
                for nd, o in outs[1:]:
                    nd0, o0 = outs[0]
                    same = (o == o0) | (np.isnan(o) & np.isnan(o0))
                    # a mean may collide with a placeholder value
                    collide = (o0 == np.float32(nd)) | (o == np.float32(nd0))
                    bad = ~(same | collide)
                    for j in np.nonzero(bad.any(axis=1))[0][:3]:
                        p.violation("mean_grp_renderings",
                                    {"kernel": "mean_grp", "idx": idx[j].tolist(), "labels": list(labels), "nds": [nd0, nd]},
                                    {"kind": "mean_grp_render", "idx": idx[j].tolist(), "ab": ab, "labels": list(labels),
                                     "nds": [nd0, nd], "dtype": dtype},
                                    f"mean_grp result depends on the nodata value ({nd0} vs {nd}) for word "
                                    f"{idx[j].tolist()} labels {labels} {dtype}")
    # float32 data that are not small integers, with large-magnitude markers: the mean must be that of the valid
    # cells to float32 accuracy whatever number marks the gaps
    if n >= 2:
        fv = np.array([0, 3.3, 10.7], dtype=np.float32)
        for k in range(1, min(maxk, n) + 1):
            for labels in sse.surjective_labelings(n, k):
                g = np.asarray(labels, dtype="int16")
                base = None
                for nd in (-9999.0, -32768.0, float(np.finfo(np.float32).min), 2.0 ** 100):   # markers exactly representable in float32
                    x = fv[idx].copy()
                    x[~valid] = np.float32(nd)
                    try:
                        out = np.asarray(_stats().mean_grp(x, g, k, nd)).astype(np.float64)
                    except Exception as e:
                        p.violation("mean_grp_float", {"labels": list(labels), "nd": nd}, {"kind": "mg_float", "n": n}, f"mean_grp raised {type(e).__name__}: {e}")
                        continue
                    exp = np.empty((N, n))
                    for grp in range(k):
                        m = g == grp
                        vv = np.where(valid[:, m], x[:, m].astype(np.float64), 0.0)
                        c = valid[:, m].sum(axis=1)
                        with np.errstate(all="ignore"):
                            exp[:, m] = np.where(c > 0, vv.sum(axis=1) / np.maximum(c, 1), np.float64(np.float32(nd)))[:, None]
                    tol = 4 * np.spacing(np.abs(exp).astype(np.float32)).astype(np.float64)
                    bad = ~(np.abs(out - exp) <= tol)
                    p.count("mean_grp_float", evaluations=N, nontrivial=N)
                    for j in np.nonzero(bad.any(axis=1))[0][:3]:
                        p.violation("mean_grp_float", {"x": x[j].tolist(), "labels": list(labels), "nd": nd}, {"kind": "mg_float", "n": n},
                                    f"mean_grp(float32 {x[j].tolist()}, groups={list(labels)}, nodata={nd}) -> {out[j].tolist()}, mean of the valid cells {exp[j].tolist()}")
    p.sample(sub, {"n": n, "labels": "all surjective labelings with <=%d groups" % maxk,
                   "words": "all over {ND,%s,%s}" % (ab[0], ab[1]), "dtypes": dtypes})


def mean_grp_accessor(ctx, ab, maxn):
    import pandas as pd
    import xarray as xr
    st = _stats()
    sub = "mean_grp_accessor"
    nd = -9999
    for n in range(2, maxn + 1):
        idx = sse.word_indices(3, n)
        N = idx.shape[0]
        vals = sse.render(idx, [nd] + ab).astype("int16")
        time = pd.date_range("2000-01-01", periods=n, freq="10D")
        da = xr.DataArray(vals.reshape(N, 1, n), dims=("y", "x", "time"), coords={"time": time}, attrs={"nodata": nd})
        for k in (1, 2, 3):
            if k > n:
                continue
            for labels in sse.surjective_labelings(n, k):
                kern = np.asarray(st.mean_grp(vals, np.asarray(labels, "int16"), k, nd))
                r1 = da.hdc.algo.mean_grp(list(labels)).values.reshape(N, n)
                da2 = da.copy()
                da2.attrs = {}
                r2 = da2.hdc.algo.mean_grp(np.asarray(labels, dtype="int16"), nodata=nd).values.reshape(N, n)
                ctx.count(sub, evaluations=2 * N)
                for name, r in (("attr", r1), ("arg", r2)):
                    if not np.array_equal(r, kern):
                        j = int(np.nonzero((r != kern).any(axis=1))[0][0])
                        ctx.violation(sub, {"accessor": "mean_grp", "variant": name, "word": vals[j].tolist(), "labels": list(labels)},
                                      {"kind": "mean_grp_acc", "word": vals[j].tolist(), "labels": list(labels), "variant": name},
                                      f"hdc.algo.mean_grp [{name}] differs from the kernel for {vals[j].tolist()} labels {labels}")
    ctx.sample(sub, {"cube": "all words over {ND,a,b} of length 2..%d as pixels" % maxn})


def big_sentinels(ctx):
    """Sentinels that need more than 24 significant bits (the customary int32 fill values) on int32 / int64 data."""
    st = _stats()
    sub = "big_sentinels"
    for nd in (2147483647, -2147483647, 16777217, 99999999, -2147483648):
        for n in (1, 2, 3, 4, 5):
            idx = sse.word_indices(4, n)
            N = idx.shape[0]
            valid = idx != 0
            vals = sse.render(idx, [nd, -2, 0, 7]).astype(np.int64)
            for dtype in ("int32", "int64"):
                for w in range(1, n + 1):
                    check_rolling(vals, valid, w, nd, dtype, ctx, sub)
                    ctx.count(sub, evaluations=N, nontrivial=int((~valid).any(axis=1).sum()))
                for k in (1, 2):
                    if k > n:
                        continue
                    for labels in sse.surjective_labelings(n, k):
                        out = np.asarray(st.mean_grp(vals.astype(dtype), np.asarray(labels, "int16"), k, nd)).astype(np.float64)
                        g = np.asarray(labels)
                        exp = np.empty((N, n))
                        for grp in range(k):
                            m = g == grp
                            c = valid[:, m].sum(axis=1)
                            sm = np.where(valid[:, m], vals[:, m], 0).sum(axis=1)
                            exp[:, m] = np.where(c > 0, sm / np.maximum(c, 1), float(np.float32(nd)))[:, None]
                        bad = ~(np.abs(out - exp) <= 4 * np.spacing(np.abs(exp).astype(np.float32)).astype(np.float64))
                        ctx.count(sub, evaluations=N)
                        for j in np.nonzero(bad.any(axis=1))[0][:3]:
                            ctx.violation(sub, {"kernel": "mean_grp", "word": vals[j].tolist(), "labels": list(labels), "dtype": dtype, "nodata": nd}, {"kind": "bigsent"},
                                          f"mean_grp({vals[j].tolist()} {dtype}, groups={list(labels)}, nodata={nd}) -> {out[j].tolist()}, expected {exp[j].tolist()}")
    # valid cells right next to the marker (a marker is matched exactly, not "to within float32 resolution")
    near = {2147483647: [2147483520, 2147483646], -2147483648: [-2147483520, -2147483647], 16777217: [16777216, 16777218], 99999999: [99999998, 100000000]}
    for nd, nb in near.items():
        for n in (1, 2, 3):
            idx = sse.word_indices(4, n)
            N = idx.shape[0]
            valid = idx != 0
            vals = sse.render(idx, [nd, nb[0], nb[1], 7]).astype(np.int64)
            for dtype in ("int32", "int64"):
                check_rolling(vals, valid, 1, nd, dtype, ctx, sub)
                ctx.count(sub, evaluations=N, nontrivial=N)
                for k in (1, 2):
                    if k > n:
                        continue
                    for labels in sse.surjective_labelings(n, k):
                        out = np.asarray(st.mean_grp(vals.astype(dtype), np.asarray(labels, "int16"), k, nd)).astype(np.float64)
                        g = np.asarray(labels)
                        exp = np.empty((N, n))
                        for grp in range(k):
                            m = g == grp
                            c = valid[:, m].sum(axis=1)
                            sm = np.where(valid[:, m], vals[:, m], 0).sum(axis=1)
                            exp[:, m] = np.where(c > 0, sm / np.maximum(c, 1), float(np.float32(nd)))[:, None]
                        bad = ~(np.abs(out - exp) <= 4 * np.spacing(np.abs(exp).astype(np.float32)).astype(np.float64))
                        ctx.count(sub, evaluations=N, nontrivial=N)
                        for j in np.nonzero(bad.any(axis=1))[0][:3]:
                            ctx.violation(sub, {"kernel": "mean_grp", "word": vals[j].tolist(), "labels": list(labels), "dtype": dtype, "nodata": nd}, {"kind": "bigsent"},
                                          f"mean_grp({vals[j].tolist()} {dtype}, groups={list(labels)}, nodata={nd}) -> {out[j].tolist()}, expected {exp[j].tolist()}")
    # float32 data one float32 step away from the marker
    for nd in (-9999.0, 255.0):
        f = np.float32(nd)
        nb = [float(np.nextafter(f, np.float32(0))), float(np.nextafter(f, np.float32(nd * 2)))]
        for n in (1, 2, 3):
            idx = sse.word_indices(4, n)
            valid = idx != 0
            vals = sse.render(idx, [nd, nb[0], nb[1], 7.0])
            x = vals.astype("float32")
            out = np.asarray(st.rolling_sum(x, 1, nd)).astype(np.float64)
            ctx.count(sub, evaluations=len(x), nontrivial=len(x))
            exp = x.astype(np.float64)
            bad = (out != exp).any(axis=1)
            for j in np.nonzero(bad)[0][:3]:
                ctx.violation(sub, {"kernel": "rolling_sum", "word": x[j].tolist(), "dtype": "float32", "nodata": nd}, {"kind": "bigsent"},
                              f"rolling_sum({x[j].tolist()} float32, window=1, nodata={nd}) -> {out[j].tolist()}: a window of one cell must echo the cell "
                              f"(a valid cell one float32 step from the marker is not the marker)")
    ctx.sample(sub, {"sentinels": [2147483647, -2147483647, 16777217, 99999999, -2147483648], "dtypes": ["int32", "int64"],
                     "valid_cells_next_to_the_marker": {str(k): v for k, v in near.items()}})


def falsy_nodata(ctx):
    """nodata = 0 passed as an explicit argument (a falsy value) must be honoured exactly like any other nodata."""
    import pandas as pd
    import xarray as xr
    st = _stats()
    sub = "nodata_zero_argument"
    n = 4
    idx = sse.word_indices(4, n)
    N = idx.shape[0]
    vals = sse.render(idx, [0, -3, 2, 5]).astype("int16")      # symbol 0 -> nodata value 0
    time = pd.date_range("2000-01-01", periods=n, freq="10D")
    for attrs in ({}, {"nodata": 12345}, {"nodata": 0}):
        da = xr.DataArray(vals.reshape(N, 1, n), dims=("y", "x", "time"), coords={"time": time}, attrs=attrs)
        for w in (1, 2, 4):
            kern = np.asarray(st.rolling_sum(vals, w, 0))[:, w - 1:]
            try:
                got = da.hdc.rolling.sum(w, nodata=0).values.reshape(N, -1)
                ok = np.array_equal(got, kern)
                msg = "" if ok else f"result differs from the kernel with nodata=0 (e.g. {vals[int(np.nonzero((got != kern).any(axis=1))[0][0])].tolist()})"
            except Exception as e:
                ok, msg = False, f"raised {type(e).__name__}: {e}"
            ctx.count(sub, evaluations=N, nontrivial=N)
            if not ok:
                ctx.violation(sub, {"accessor": "rolling.sum", "attrs": attrs, "window": w}, {"kind": "falsy"}, f"rolling.sum({w}, nodata=0) with attrs {attrs}: {msg}")
        for labels in ((0, 0, 1, 1), (0, 1, 0, 1), (0, 0, 0, 0)):
            k = len(set(labels))
            kern = np.asarray(st.mean_grp(vals, np.asarray(labels, "int16"), k, 0))
            try:
                got = da.hdc.algo.mean_grp(list(labels), nodata=0).values.reshape(N, n)
                ok = np.array_equal(got, kern)
                msg = "" if ok else f"result differs from the kernel with nodata=0 (e.g. {vals[int(np.nonzero((got != kern).any(axis=1))[0][0])].tolist()})"
            except Exception as e:
                ok, msg = False, f"raised {type(e).__name__}: {e}"
            ctx.count(sub, evaluations=N, nontrivial=N)
            if not ok:
                ctx.violation(sub, {"accessor": "mean_grp", "attrs": attrs, "labels": list(labels)}, {"kind": "falsy"}, f"mean_grp({list(labels)}, nodata=0) with attrs {attrs}: {msg}")
    ctx.sample(sub, {"nodata_argument": 0, "attrs_variants": [{}, {"nodata": 12345}, {"nodata": 0}]})


# --------------------------------------------------------------------- long deterministic family
def long_family(ctx):
    """Deterministic longer series over every supported dtype (windows straddling outages)."""
    sub = "rolling_long"
    n = 400
    t = np.arange(n)
    base = ((t * 37) % 101 - 50).astype(np.int64)
    for gap_name, valid in (
        ("none", np.ones(n, bool)),
        ("every7", t % 7 != 3),
        ("outage", ~((t >= 100) & (t < 160))),
        ("lead_trail", (t >= 20) & (t < 380)),
        ("sparse", t % 5 == 0),
    ):
        for nd in (-9999, 255):
            vals = np.where(valid, base, nd)[None, :]
            for w in (1, 2, 3, 9, 36, 60, 61, n):
                for dtype in ("int16", "int32", "int64", "float32"):
                    check_rolling(vals, valid[None, :], w, nd, dtype, ctx, sub)
                    ctx.count(sub, evaluations=1, nontrivial=int(gap_name != "none"))
    # long records on a high level: the total over the record passes 2^24 (float32 cannot hold a running total of
    # the whole record exactly) while every window sum is a small exact integer
    n2 = 1000
    t2 = np.arange(n2)
    for level, dts in ((26000, ("int16", "int32", "int64", "float32")), (100000, ("int32", "int64", "float32"))):
        base2 = (level + (t2 * 37) % 101).astype(np.int64)
        for gap_name, valid in (("none", np.ones(n2, bool)), ("every7", t2 % 7 != 3), ("outage", ~((t2 >= 700) & (t2 < 760)))):
            vals = np.where(valid, base2, -9999)[None, :]
            for w in (1, 2, 5, 36):
                for dtype in dts:
                    check_rolling(vals, valid[None, :], w, -9999, dtype, ctx, sub)
                    ctx.count(sub, evaluations=1, nontrivial=1)
    ctx.sample(sub, {"n": n, "gaps": ["none", "every7", "outage", "lead_trail", "sparse"], "windows": [1, 2, 3, 9, 36, 60, 61, n],
                     "high_level_records": {"n": n2, "levels": [26000, 100000], "windows": [1, 2, 5, 36]}})


def attr_histories(ctx):
    """rolling.sum / mean_grp on one long-lived object whose nodata attribute is edited in place between calls."""
    import pandas as pd
    import xarray as xr
    from .. import histories
    sub = "attr_histories"
    n = 5
    time = pd.date_range("2000-01-01", periods=n, freq="10D")
    rows = [[3, 1, 4, 1, 5], [0, 7, 0, 7, 2], [-9999, 2, 7, -9999, 30], [7, 7, 2, 9, 7], [-9999] * n, [0, 0, 7, 7, 0]]
    for dtype in ("int16", "float32"):
        data = np.array(rows).astype(dtype).reshape(2, 3, n)

        def make():
            return xr.DataArray(data.copy(), dims=("y", "x", "time"), coords={"time": time})

        same = lambda a, b: np.array_equal(a, b, equal_nan=True)
        h = histories.explore(make, "nodata", [histories.ABSENT, -9999, 0, 7], lambda da: da.hdc.rolling.sum(2).values.copy(), same, 3, ctx, sub, f"rolling.sum(2)[{dtype}]")
        h += histories.explore(make, "nodata", [histories.ABSENT, -9999, 0, 7], lambda da: da.hdc.algo.mean_grp([0, 1, 0, 1, 0]).values.copy(), same, 3, ctx, sub,
                               f"mean_grp[{dtype}]")
        ctx.note_add("attr_histories", h)
    ctx.sample(sub, {"attr": "nodata", "values": ["<absent>", -9999, 0, 7], "depth": 3, "pixels": rows})


def long_axes(ctx):
    """Records longer than a 16-bit index can address (hourly series reach this in under four years): positions,
    counters and member lists must not be held in the width of the label or data dtype."""
    st = _stats()
    sub = "long_axes"
    for n in (32767, 32768, 32769, 40000, 70000):
        t = np.arange(n)
        base = ((t * 37) % 101 - 50).astype(np.int64)
        valid = (t % 7 != 3) & ~((t >= n - 500) & (t < n - 440))
        nd = -9999
        vals = np.where(valid, base, nd)
        g = (t % 12).astype("int16")
        for dtype in ("int16", "float32", "int64"):
            x = vals.astype(dtype)[None, :]
            # mean_grp
            out = np.asarray(st.mean_grp(x, g, 12, nd))[0].astype(np.float64)
            exp = np.empty(n)
            for grp in range(12):
                m = g == grp
                c = valid[m].sum()
                exp[m] = base[m][valid[m]].sum() / c if c else nd
            bad = ~(np.abs(out - exp.astype(np.float32).astype(np.float64)) <= np.spacing(np.abs(exp).astype(np.float32)).astype(np.float64))
            ctx.count(sub, evaluations=1, states=1, nontrivial=1)
            if bad.any():
                j = int(np.nonzero(bad)[0][0])
                ctx.violation(sub, {"kernel": "mean_grp", "n": n, "dtype": dtype}, {"kind": "long_axes"},
                              f"mean_grp on a {dtype} record of {n} steps (12 interleaved groups): {int(bad.sum())} steps wrong, first at step {j}: {out[j]!r}, expected {exp[j]!r}")
            if dtype == "int64" and n > 40000:
                continue
            # rolling_sum
            w = 3
            out = np.asarray(st.rolling_sum(x, w, nd))[0].astype(np.float64)
            cs = np.concatenate([[0], np.cumsum(np.where(valid, base, 0))])
            cc = np.concatenate([[0], np.cumsum(valid.astype(np.int64))])
            s_ = (cs[w:] - cs[:-w]).astype(np.float64)
            c_ = cc[w:] - cc[:-w]
            o = out[w - 1:]
            ok = ((c_ == w) & (o == s_)) | ((c_ == 0) & (o == nd)) | ((c_ > 0) & (c_ < w) & ((o == s_) | (o == nd)))
            ok_head = (out[: w - 1] == nd).all()
            ctx.count(sub, evaluations=1, states=1, nontrivial=1)
            if not ok.all() or not ok_head:
                j = int(np.nonzero(~ok)[0][0]) + w - 1 if not ok.all() else 0
                ctx.violation(sub, {"kernel": "rolling_sum", "n": n, "dtype": dtype}, {"kind": "long_axes"},
                              f"rolling_sum(window 3) on a {dtype} record of {n} steps: {int((~ok).sum())} positions wrong, first at {j}: {out[j]!r}")
    ctx.sample(sub, {"lengths": [32767, 32768, 32769, 40000, 70000], "groups": 12, "window": 3, "dtypes": ["int16", "float32", "int64"]})


# --------------------------------------------------------------------- entry points
def run(ctx):
    letters = letters_for(ctx.seed)
    maxn = 8 if ctx.thorough() else 7
    nds = renderings(letters, maxn)
    dtypes = ["int16", "int32", "int64", "float32"]
    _stats().rolling_sum(np.zeros((1, 2), "int16"), 1, 0)  # compile before forking
    _stats().mean_grp(np.zeros((1, 2), "int16"), np.zeros(2, "int16"), 1, 0)
    tasks = []
    for n in range(1, maxn + 1):
        if n >= 7:
            for dt in dtypes:
                tasks.append((n, letters, nds, [dt]))
        else:
            tasks.append((n, letters, nds, dtypes))
    ctx.pmap(_rolling_task, tasks[::-1])
    ctx.note("rolling_alphabet", ["ND"] + letters)
    ctx.note("rolling_nodata_renderings", nds)
    ctx.note("rolling_max_len", maxn)
    # mean_grp
    rng = sse.seeded_rng(ctx.seed, "c17mg")
    ab = [3, 10] if ctx.seed == 0 else sorted(rng.sample(range(-50, 51), 2))
    mg_nds = [-9999, 255, next(v for v in range(ab[0] + 1, 300) if v not in ab)]
    # markers that a partial sum of valid cells can hit (a + b, 2a, 2a + b): the marker is a value like any other for
    # the arithmetic and must not act as a state flag of the accumulation
    mg_nds += [v for v in (ab[0] + ab[1], 2 * ab[0], 2 * ab[0] + ab[1], 2 * ab[1]) if v not in ab and v not in mg_nds]
    maxk = 4 if ctx.thorough() else 3
    mtasks = [(n, ab, mg_nds, ["float32", "int16", "int32", "int64"], maxk) for n in range(1, 7)]
    ctx.pmap(_mean_grp_task, mtasks[::-1])
    ctx.note("mean_grp_alphabet", ["ND"] + ab)
    rolling_accessor(ctx, letters, nds, 5 if ctx.thorough() else 4)
    mean_grp_accessor(ctx, ab, 5 if ctx.thorough() else 4)
    long_family(ctx)
    falsy_nodata(ctx)
    big_sentinels(ctx)
    long_axes(ctx)
    attr_histories(ctx)
    from . import spell_common
    spell_common.run(ctx, "C17")



def replay(sub, case, p):
    if case.get("kind") == "spelling":
        from . import spell_common
        spell_common.run(p, "C17")
        return
    kind = case["kind"]
    if kind == "attr_history":
        attr_histories(p)
        return
    if kind == "long_axes":
        long_axes(p)
        return
    if kind == "mg_float":
        _mean_grp_task((case["n"], [3, 10], [-9999, 255, 4], ["float32"], 3), p)
        return
    if kind == "bigsent":
        big_sentinels(p)
        return
    if kind == "falsy":
        falsy_nodata(p)
        return
    if kind in ("rolling", "rolling_edge"):
        vals = np.asarray([case["word"]], dtype=np.int64)
        valid = np.asarray([case["valid"]], dtype=bool)
        out = check_rolling(vals, valid, case["window"], case["nodata"], case["dtype"], p, sub)
        if kind == "rolling_edge" and out is not None:
            pout = np.asarray(_stats().rolling_sum(vals[:, :-1].astype(case["dtype"]), case["window"], case["nodata"]))
            w = case["window"]
            if not np.array_equal(out[:, w - 1:-1], pout[:, w - 1:]):
                p.violation(sub, {}, case, "appending a symbol changed earlier outputs")
    elif kind == "rolling_render":
        idx = np.asarray([case["idx"]], dtype=np.int8)
        valid = idx != 0
        outs = []
        for nd in case["nds"]:
            vals = sse.render(idx, [nd] + case["letters"]).astype(np.int64)
            o = np.asarray(_stats().rolling_sum(vals.astype(case["dtype"]), case["window"], nd))[:, case["window"] - 1:]
            outs.append((nd, o))
        (n0, o0), (n1, o1) = outs
        v0 = np.where(valid, sse.render(idx, [0] + case["letters"]), 0).astype(np.int64)
        w = case["window"]
        cs = np.concatenate([np.zeros((1, 1), np.int64), np.cumsum(v0, axis=1)], axis=1)
        sums = cs[:, w:] - cs[:, :-w]
        collide = (sums == n0) | (sums == n1)
        a0 = np.where(o0 == n0, np.nan, o0)
        a1 = np.where(o1 == n1, np.nan, o1)
        same = (a0 == a1) | (np.isnan(a0) & np.isnan(a1))
        if (~(same | collide)).any():
            p.violation(sub, {}, case, "results under two nodata renderings do not correspond")
    elif kind == "mean_grp":
        vals = np.asarray([case["word"]], dtype=np.int64)
        valid = np.asarray([case["valid"]], dtype=bool)
        check_mean_grp(vals, valid, case["labels"], len(set(case["labels"])), case["nodata"], case["dtype"], p, sub)
    elif kind == "mean_grp_render":
        idx = np.asarray([case["idx"]], dtype=np.int8)
        outs = []
        for nd in case["nds"]:
            vals = sse.render(idx, [nd] + case["ab"]).astype(case["dtype"])
            o = np.asarray(_stats().mean_grp(vals, np.asarray(case["labels"], "int16"), len(set(case["labels"])), nd))
            outs.append(np.where(o == np.float32(nd), np.nan, o))
        same = (outs[0] == outs[1]) | (np.isnan(outs[0]) & np.isnan(outs[1]))
        if not same.all():
            p.violation(sub, {}, case, "mean_grp depends on the nodata value")
    elif kind in ("rolling_acc", "mean_grp_acc"):
        import pandas as pd
        import xarray as xr
        vals = np.asarray([case["word"]], dtype="int16")
        n = vals.shape[1]
        time = pd.date_range("2000-01-01", periods=n, freq="10D")
        if kind == "rolling_acc":
            nd, w = case["nodata"], case["window"]
            kern = np.asarray(_stats().rolling_sum(vals, w, nd))[:, w - 1:]
            da = xr.DataArray(vals.reshape(1, 1, n), dims=("y", "x", "time"), coords={"time": time}, attrs={"nodata": nd})
            got = da.hdc.rolling.sum(w).values.reshape(1, -1)
        else:
            nd = -9999
            lab = case["labels"]
            kern = np.asarray(_stats().mean_grp(vals, np.asarray(lab, "int16"), len(set(lab)), nd))
            da = xr.DataArray(vals.reshape(1, 1, n), dims=("y", "x", "time"), coords={"time": time}, attrs={"nodata": nd})
            got = da.hdc.algo.mean_grp(lab).values.reshape(1, -1)
        if got.shape != kern.shape or not np.array_equal(got, kern):
            p.violation(sub, {}, case, f"accessor result {got.tolist()} differs from kernel {kern.tolist()}")

"""C11 — dekads partition the calendar and behave as an ordered integer line.

The state space is finite and is enumerated completely: every day 0001-01-01 .. 9999-12-31 (3,652,059) and
every dekad 0001-01-d1 .. 9999-12-d3 (359,964); transitions day -> next day and dekad -> next dekad.  The
reference is the calendar definition (days 1-10 / 11-20 / 21-end) computed with the standard library.
"""
from __future__ import annotations

import calendar
import importlib
import re
from datetime import date, datetime, timedelta

import numpy as np

LEVEL = "model_checking"
RULE = ("every calendar day and every dekad in years 1..9999 (complete state space), transitions = successor day / "
        "successor dekad; non-trivial = all (every state exercises membership, constructors, order and arithmetic)")
ASSUMPTIONS = ["the very last dekad's end_date (year 10000) is outside datetime's range and excluded, as the property says"]

US = timedelta(microseconds=1)
FIRST = 36 * 1
LAST = 36 * 9999 + 35
OFFSETS = (0, 1, -1, 2, -2, 3, -3, 35, -35, 36, -36, 37, -37, 359963, -359963)
LABEL = re.compile(r"^\d{4}(0[1-9]|1[0-2])d[123]$")


def Dk():
    import hdc.algo  # noqa: F401
    return importlib.import_module("hdc.algo.dekad").Dekad


def ref_of_day(d):
    idx = 1 if d.day <= 10 else 2 if d.day <= 20 else 3
    return d.year, d.month, idx


def _year_task(task, p):
    y0, y1 = task
    Dekad = Dk()
    sub_d, sub_k = "days", "dekads"
    ndays = ndek = 0

    def bad(sub, what, key, msg):
        p.violation(sub, dict(key, what=what), dict(key, kind=sub, what=what), msg)

    anchors = [Dekad(FIRST), Dekad(36 * 2000 + 17), Dekad(LAST)]
    for year in range(y0, y1):
        for month in range(1, 13):
            mlen = calendar.monthrange(year, month)[1]
            dk = []
            for idx in (1, 2, 3):
                raw = 36 * year + 3 * (month - 1) + (idx - 1)
                key = {"raw": raw}
                label = f"{year:04d}{month:02d}d{idx}"
                D = Dekad(raw)
                dk.append(D)
                ndek += 1
                # constructors are mutually inverse
                if str(D) != label or not LABEL.match(str(D)):
                    bad(sub_k, "label", key, f"str(Dekad({raw})) = {str(D)!r}, expected {label!r}")
                DL = Dekad(label)
                if DL.raw != raw or D.raw != raw:
                    bad(sub_k, "raw", key, f"Dekad({label!r}).raw = {DL.raw}, expected {raw}")
                first_day = {1: 1, 2: 11, 3: 21}[idx]
                last_day = {1: 10, 2: 20, 3: mlen}[idx]
                if (D.year, D.month, D.idx, D.day, D.yidx) != (year, month, idx, first_day, 3 * (month - 1) + idx):
                    bad(sub_k, "fields", key, f"Dekad({raw}): year/month/idx/day/yidx = {(D.year, D.month, D.idx, D.day, D.yidx)}")
                sd = D.start_date
                if sd != datetime(year, month, first_day):
                    bad(sub_k, "start_date", key, f"Dekad({label}).start_date = {sd}")
                if Dekad(sd).raw != raw or Dekad(sd.date()).raw != raw:
                    bad(sub_k, "from start_date", key, f"Dekad(start_date) of {label} is {Dekad(sd)}")
                if raw != LAST:
                    ed = D.end_date
                    exp_end = datetime(year, month, last_day, 23, 59, 59, 999999)
                    if ed != exp_end:
                        bad(sub_k, "end_date", key, f"Dekad({label}).end_date = {ed}, expected {exp_end}")
                    if D.ndays != last_day - first_day + 1:
                        bad(sub_k, "ndays", key, f"Dekad({label}).ndays = {D.ndays}, expected {last_day - first_day + 1}")
                    if D.date_range != (sd, ed):
                        bad(sub_k, "date_range", key, f"Dekad({label}).date_range = {D.date_range}")
                    # abutting: next start is exactly one microsecond after this end
                    N = D + 1
                    if N.start_date - ed != US:
                        bad(sub_k, "abut", key, f"{label}: next dekad starts {N.start_date}, this one ends {ed}")
                    if Dekad(ed).raw != raw:
                        bad(sub_k, "from end_date", key, f"Dekad(end_date) of {label} is {Dekad(ed)}")
                # order and hashing against the successor / predecessor (transition relation)
                if raw < LAST:
                    N = Dekad(raw + 1)
                    ok = (D < N) and (N > D) and (D <= N) and (N >= D) and not (D == N) and (D != N) and not (D > N) and not (N < D) and not (D >= N)
                    if not ok or (N.start_date <= D.start_date):
                        bad(sub_k, "order", key, f"order of {label} and its successor is wrong")
                    if (N - D) != 1 or (D - N) != -1:
                        bad(sub_k, "difference", key, f"successor - {label} = {N - D}")
                E = Dekad(label)
                if not (D == E and hash(D) == hash(E) and D <= E and D >= E and not (D < E) and not (D > E) and not (D != E)):
                    bad(sub_k, "equality/hash", key, f"equal dekads {label} do not compare/hash equal")
                # mixed-type comparisons
                if not (D == label and D == raw and D == sd and D == sd.date() and D <= label and D >= raw and not (D < sd) and not (D > sd.date())):
                    bad(sub_k, "mixed comparison", key, f"{label} does not compare equal to its str/int/datetime/date forms")
                if raw > FIRST and not (D > raw - 1 and D > str(Dekad(raw - 1)) and raw - 1 < D.raw):
                    bad(sub_k, "mixed order", key, f"{label} not greater than predecessor in int/str form")
                # arithmetic: integer translations
                for nn in OFFSETS:
                    t = raw + nn
                    if t < FIRST or t > LAST:
                        continue
                    A = D + nn
                    if A.raw != t or (A - D) != nn or ((A - nn) != D) or (nn + D) != A or (D - (-nn)).raw != t:
                        bad(sub_k, "arithmetic", dict(key, n=nn), f"{label} + {nn}: raw {A.raw} (expected {t}), (d+n)-d = {A - D}, (d+n)-n = {A - nn}")
                    if not isinstance(A, Dekad) or not isinstance(A - D, int):
                        bad(sub_k, "arithmetic types", dict(key, n=nn), f"{label} + {nn}: types {type(A).__name__}, {type(A - D).__name__}")
                for Aq in anchors:
                    if (D - Aq) != raw - Aq.raw or (Aq + (D - Aq)) != D:
                        bad(sub_k, "difference", dict(key, anchor=Aq.raw), f"{label} - {Aq} = {D - Aq}, expected {raw - Aq.raw}")
            if raw != LAST and sum(x.ndays for x in dk) != mlen:
                bad(sub_k, "ndays sum", {"raw": raw}, f"ndays of {year:04d}-{month:02d} sum to {sum(x.ndays for x in dk)}, month has {mlen}")
            # every day of the month
            for day in range(1, mlen + 1):
                d = date(year, month, day)
                ndays += 1
                ry, rm, ri = ref_of_day(d)
                raw = 36 * ry + 3 * (rm - 1) + (ri - 1)
                D = Dekad(d)
                if D.raw != raw:
                    bad(sub_d, "dekad of day", {"day": d.isoformat()}, f"Dekad({d}) = {D}, expected raw {raw}")
                    continue
                if raw == LAST:
                    continue
                sd, ed = D.start_date, D.end_date
                for tm in ((0, 0, 0, 0), (0, 0, 0, 1), (12, 0, 0, 0), (23, 59, 59, 999999)):
                    t = datetime(year, month, day, *tm)
                    if not (sd <= t <= ed) or Dekad(t).raw != raw:
                        bad(sub_d, "membership", {"day": d.isoformat(), "time": list(tm)}, f"{t} not inside its dekad {D} [{sd}, {ed}] or Dekad({t}) = {Dekad(t)}")
                    # exactly one dekad: neighbours do not contain it
                    for nb in (raw - 1, raw + 1):
                        if FIRST <= nb < LAST:
                            Nb = dk_cache(Dekad, nb)
                            if Nb[0] <= t <= Nb[1]:
                                bad(sub_d, "overlap", {"day": d.isoformat(), "time": list(tm)}, f"{t} also lies inside neighbouring dekad {Dekad(nb)}")
    p.count(sub_d, evaluations=ndays, states=ndays, transitions=ndays, traces_validated_against_impl=ndays, nontrivial=ndays)
    p.count(sub_k, evaluations=ndek, states=ndek, transitions=ndek, traces_validated_against_impl=ndek, nontrivial=ndek)
    if y0 <= 2024 < y1:
        D = Dekad(date(2024, 2, 29))
        p.sample(sub_d, {"day": "2024-02-29", "dekad": str(D), "raw": D.raw, "start": str(D.start_date), "end": str(D.end_date), "ndays": D.ndays})
        p.sample(sub_k, {"dekad": "202402d3", "plus_37": str(D + 37), "minus_anchor_000101d1": D - Dekad("000101d1")})


_DKC = {}


def dk_cache(Dekad, raw):
    r = _DKC.get(raw)
    if r is None:
        if len(_DKC) > 64:
            _DKC.clear()
        D = Dekad(raw)
        r = _DKC[raw] = (D.start_date, D.end_date)
    return r


def accessor(ctx):
    """The .dekad accessor against the scalar class, element-wise, for every representable day."""
    import pandas as pd
    import xarray as xr
    Dekad = Dk()
    sub = "accessor"
    ranges = [("ns", pd.date_range("1677-09-22", "2262-04-11", freq="D"))]
    if ctx.thorough():
        full = np.arange(np.datetime64("0001-01-01", "s"), np.datetime64("9999-12-31", "s") + np.timedelta64(86400, "s"), np.timedelta64(86400, "s"))
        ranges.append(("s-full", full))
    else:
        part = np.concatenate([
            np.arange(np.datetime64("0001-01-01", "s"), np.datetime64("0005-01-01", "s"), np.timedelta64(86400, "s")),
            np.arange(np.datetime64("9996-01-01", "s"), np.datetime64("9999-12-21", "s"), np.timedelta64(86400, "s")),
        ])
        ranges.append(("s-edges", part))
    # microsecond axes: the first and the last two microseconds of every dekad of years spread over the whole
    # calendar (an instant that passes through a float loses its last microseconds beyond ~285 years from 1970)
    us = []
    for year in (1, 2, 500, 1000, 1500, 1684, 1685, 1800, 1969, 1970, 2000, 2254, 2255, 2500, 3000, 5000, 7500, 9000, 9998):
        for month in range(1, 13):
            last = calendar.monthrange(year, month)[1]
            for first_day, last_day in ((1, 10), (11, 20), (21, last)):
                for d, h, mi, sec, usec in ((first_day, 0, 0, 0, 0), (first_day, 0, 0, 0, 1), (last_day, 23, 59, 59, 999998), (last_day, 23, 59, 59, 999999)):
                    us.append(np.datetime64(f"{year:04d}-{month:02d}-{d:02d}T{h:02d}:{mi:02d}:{sec:02d}.{usec:06d}", "us"))
    ranges.append(("us", np.array(us, dtype="datetime64[us]")))
    for name, tt in ranges:
        tt = np.asarray(tt)
        # intra-day times: rotate four offsets over the days
        offs = np.array([0, 1, 12 * 3600, 86399], dtype="timedelta64[s]")
        if name == "us":
            tt2 = tt
        else:
            tt2 = tt + offs[np.arange(len(tt)) % 4].astype(tt.dtype.str.replace("M8", "m8")) if name != "ns" else tt + pd.to_timedelta(np.array([0, 1, 43200, 86399])[np.arange(len(tt)) % 4], unit="s")
        x = xr.DataArray(np.zeros(len(tt2), "int8"), dims="time", coords={"time": tt2})
        acc = x.time.dekad
        days = pd.DatetimeIndex(x.time.values) if name == "ns" else None
        pyd = [pd.Timestamp(v).to_pydatetime() if name == "ns" else v.astype("datetime64[us]" if name == "us" else "datetime64[s]").item() for v in x.time.values]
        scal = [Dekad(d) for d in pyd]
        ctx.count(sub, evaluations=len(tt2), states=len(tt2), traces_validated_against_impl=len(tt2), nontrivial=len(tt2))
        attrs = {
            "idx": [d.idx for d in scal], "yidx": [d.yidx for d in scal], "raw": [d.raw for d in scal],
            "label": [str(d) for d in scal], "linspace": [d.yidx - 1 for d in scal],
            "year": [d.year for d in scal], "month": [d.month for d in scal],
        }
        for a, exp in attrs.items():
            try:
                got = getattr(acc, a).values
            except Exception as e:
                ctx.violation(sub, {"attr": a, "range": name}, {"kind": "acc", "attr": a, "range": name}, f".dekad.{a} raised {type(e).__name__}: {e} on {name}")
                continue
            if list(got) != exp:
                j = next(i for i in range(len(exp)) if got[i] != exp[i])
                ctx.violation(sub, {"attr": a, "range": name, "t": str(pyd[j])}, {"kind": "acc", "attr": a, "range": name},
                              f".dekad.{a} at {pyd[j]} = {got[j]!r}, scalar class gives {exp[j]!r}")
        for a in ("ndays", "start_date", "end_date"):
            ok = [d.raw != LAST for d in scal]
            try:
                got = getattr(acc, a).values
            except Exception as e:
                if all(ok):
                    ctx.violation(sub, {"attr": a, "range": name}, {"kind": "acc", "attr": a, "range": name}, f".dekad.{a} raised {type(e).__name__}: {e} on {name}")
                continue
            for i in range(0, len(scal)):
                if not ok[i]:
                    continue
                e = getattr(scal[i], a)
                g = got[i]
                if a != "ndays":
                    g = pd.Timestamp(g).to_pydatetime() if not isinstance(g, datetime) else g
                if g != e:
                    ctx.violation(sub, {"attr": a, "range": name, "t": str(pyd[i])}, {"kind": "acc", "attr": a, "range": name},
                                  f".dekad.{a} at {pyd[i]} = {g!r}, scalar class gives {e!r}")
                    break
    ctx.sample(sub, {"ranges": [r[0] for r in ranges], "attributes": ["idx", "yidx", "ndays", "label", "start_date", "end_date", "raw", "linspace", "year", "month"]})


def _axes_task(task, p):
    """The accessor must not depend on the structure of the axis it sits on: every axis that is a subset (1..4 [5]
    instants) of a 13-day lattice spanning four dekads across a year end - several instants in one dekad, skipped
    dekads, ascending / descending / rotated order - element-wise against the scalar class."""
    import itertools
    import pandas as pd
    import xarray as xr
    Dekad = Dk()
    sub = "axes"
    k, thorough = task
    lattice = [datetime(1999, 12, 2), datetime(1999, 12, 9), datetime(1999, 12, 10, 23, 59, 59), datetime(1999, 12, 11), datetime(1999, 12, 20, 12),
               datetime(1999, 12, 21), datetime(1999, 12, 31, 23), datetime(2000, 1, 1), datetime(2000, 1, 5), datetime(2000, 1, 11), datetime(2000, 1, 25),
               datetime(2000, 2, 11), datetime(2000, 2, 21)]
    scal = {d: Dekad(d) for d in lattice}
    n_axes = 0
    for comb in itertools.combinations(range(len(lattice)), k):
        orders = [comb, comb[::-1]] + ([comb[1:] + comb[:1]] if k >= 3 else [])
        for order in orders:
            days = [lattice[i] for i in order]
            x = xr.DataArray(np.zeros(k, "int8"), dims="time", coords={"time": pd.DatetimeIndex(days)})
            acc = x.time.dekad
            n_axes += 1
            exp = {"idx": [scal[d].idx for d in days], "yidx": [scal[d].yidx for d in days], "raw": [scal[d].raw for d in days],
                   "label": [str(scal[d]) for d in days], "ndays": [scal[d].ndays for d in days],
                   "start_date": [scal[d].start_date for d in days], "end_date": [scal[d].end_date for d in days]}
            for a, e in exp.items():
                try:
                    got = list(getattr(acc, a).values)
                except Exception as ex:
                    p.violation(sub, {"attr": a, "axis": [str(d) for d in days]}, {"kind": "axes", "k": k}, f".dekad.{a} raised {type(ex).__name__}: {ex} on axis {[str(d) for d in days]}")
                    continue
                if a in ("start_date", "end_date"):
                    got = [pd.Timestamp(g).to_pydatetime() if not isinstance(g, datetime) else g for g in got]
                if got != e:
                    j = next(i for i in range(k) if got[i] != e[i])
                    p.violation(sub, {"attr": a, "axis": [str(d) for d in days], "t": str(days[j])}, {"kind": "axes", "k": k},
                                f".dekad.{a} on axis {[str(d) for d in days]}: element {days[j]} -> {got[j]!r}, scalar class gives {e[j]!r}")
    p.count(sub, evaluations=n_axes * 7, states=n_axes, traces_validated_against_impl=n_axes, nontrivial=n_axes)
    if k == 3:
        p.sample(sub, {"lattice": [str(d) for d in lattice], "subset_sizes": "1..4 (5)", "orders": ["ascending", "descending", "rotated"]})


def unit_sequences(ctx):
    """Axes that hold the SAME integers in different datetime64 units, read one after the other in one process
    (every ordered pair of units, three payloads): each axis gets the dekads of its own instants."""
    import pandas as pd
    import xarray as xr
    Dekad = Dk()
    sub = "unit_sequences"
    payloads = [np.array([946684800, 1057017600, 1293235200, 920160000], dtype="int64"),
                np.array([86400 * 9, 86400 * 10, 86400 * 40, 86400 * 364], dtype="int64"),
                np.array([1, 864000, 1728000, 2678400, 31536000], dtype="int64")]
    units = ("s", "ms", "us", "ns")
    n = 0
    for pay in payloads:
        for u1 in units:
            for u2 in units:
                for u in (u1, u2):
                    tt = pay.astype(f"datetime64[{u}]")
                    x = xr.DataArray(np.zeros(len(tt), "int8"), dims="time", coords={"time": tt})
                    acc = x.time.dekad
                    pyd = [pd.Timestamp(v).to_pydatetime() for v in tt]
                    scal = [Dekad(d) for d in pyd]
                    n += 1
                    for a, exp in (("idx", [d.idx for d in scal]), ("raw", [d.raw for d in scal]), ("label", [str(d) for d in scal]), ("yidx", [d.yidx for d in scal]),
                                   ("ndays", [d.ndays for d in scal])):
                        got = list(getattr(acc, a).values)
                        if got != exp:
                            ctx.violation(sub, {"attr": a, "units": [u1, u2], "unit": u, "payload": pay.tolist()}, {"kind": "unitseq"},
                                          f".dekad.{a} on the datetime64[{u}] axis {[str(v) for v in tt]} (read in the sequence [{u1}] then [{u2}] of the same integers) "
                                          f"-> {got}, scalar class gives {exp}")
                            break
    ctx.count(sub, evaluations=n, states=n, transitions=n, traces_validated_against_impl=n, nontrivial=n)
    ctx.sample(sub, {"units": list(units), "payloads": [p_.tolist() for p_ in payloads], "sequences": "every ordered pair of units"})


def run(ctx):
    tasks = [(y, min(10000, y + 50)) for y in range(1, 10000, 50)]
    ctx.pmap(_year_task, tasks)
    ctx.note("days", "0001-01-01..9999-12-31")
    ctx.note("dekads", "000101d1..999912d3")
    ctx.pmap(_axes_task, [(k, ctx.thorough()) for k in range(5 if ctx.thorough() else 4, 0, -1)])
    accessor(ctx)
    unit_sequences(ctx)


def replay(sub, case, p):
    if case.get("kind") in ("days", "dekads"):
        if "day" in case:
            y = int(case["day"][:4])
        else:
            y = case["raw"] // 36
        _year_task((y, y + 1), p)
    elif case.get("kind") == "unitseq":
        unit_sequences(p)
    elif case.get("kind") == "axes":
        _axes_task((case["k"], False), p)
    else:
        class C:
            pass
        p.thorough = lambda: False
        accessor(p)

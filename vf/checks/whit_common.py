"""Shared pieces of the Whittaker smoother checks (C02-C06): word sets, kernel drivers, references."""
from __future__ import annotations

import importlib
import itertools

import numpy as np

from .. import sse
from ..oracle import pls

I16_MIN, I16_MAX = -32768, 32767
ROUND_BAND = 1e-5          # absolute guard band around rounding ties (float error in scope < 1e-7)


def ops():
    import hdc.algo  # noqa: F401
    return importlib.import_module("hdc.algo.ops")


def letters_for(seed, salt="whit"):
    """Three data letters lo < mid < hi (seed 0: the canonical ones)."""
    if seed == 0:
        return [-50, 10, 90]
    rng = sse.seeded_rng(seed, salt)
    vals = sorted(rng.sample(range(-400, 401), 3))
    return vals


def words(n, k=4):
    """(idx, valid) for all words over {ND, letters...} of length n; symbol 0 is ND."""
    idx = sse.word_indices(k, n)
    return idx, idx != 0


def render(idx, letters, nd):
    return sse.render(idx, [nd] + list(letters)).astype(np.float64)


# the last two mark the gaps of ONE series in two ways at once: alternately with the finite marker and with NaN / +inf
ENCODINGS = ["below", "inside", "above", "zero", "nan", "+inf", "-inf", "mixed nan", "mixed inf"]
# NaN / +-inf cells declared with the same value as the nodata argument (only where a check asks for them)
SELF_DECLARED = ["nan=nodata", "+inf=nodata", "-inf=nodata"]


def placeholder(enc, letters):
    if enc == "below":
        return -3000.0
    if enc == "zero":
        if 0 in letters:
            return placeholder("inside", letters)
        return 0.0
    if enc == "above":
        return 20000.0
    if enc == "inside":
        lo, hi = min(letters), max(letters)
        return float(next(v for v in range(lo + 1, hi) if v not in letters))
    raise ValueError(enc)


def encode(idx, letters, enc, nodata_for_special=-3000.0):
    """Render words with the missing cells marked according to the encoding.

    Returns (y, nodata_argument).  For NaN / inf encodings the nodata argument is an ordinary
    value that does not occur and the missing cells hold NaN / +-inf.
    """
    if enc in ("below", "inside", "above", "zero"):
        nd = placeholder(enc, letters)
        return render(idx, letters, nd), nd
    if enc.startswith("mixed"):
        special = np.nan if enc.endswith("nan") else np.inf
        y = render(idx, letters, nodata_for_special)
        gap = idx == 0
        # every second gap cell of a series (counted along the series) carries the special value
        order = np.cumsum(gap, axis=1)
        y[gap & (order % 2 == 0)] = special
        return y, nodata_for_special
    same = enc.endswith("=nodata")   # the special value is also what the caller declares as nodata
    special = {"nan": np.nan, "+inf": np.inf, "-inf": -np.inf}[enc.split("=")[0]]
    y = render(idx, letters, 0.0)
    y[idx == 0] = special
    return y, (special if same else nodata_for_special)


# ------------------------------------------------------------------ kernel drivers
def call_variant(variant, y, nd, lam=None, p=None, srange=None, lc=None, robust=None):
    """Uniform driver. Returns (out int16 (N,n), lopt (N,) or None)."""
    o = ops()
    if variant == "ws2dgu":
        return np.asarray(o.ws2dgu(y, lam, nd)), None
    if variant == "ws2dpgu":
        return np.asarray(o.ws2dpgu(y, lam, nd, p)), None
    if variant == "ws2doptv":
        out, lopt = o.ws2doptv(y, nd, srange)
        return np.asarray(out), np.asarray(lopt)
    if variant == "ws2doptvp":
        out, lopt = o.ws2doptvp(y, nd, p, srange)
        return np.asarray(out), np.asarray(lopt)
    if variant == "ws2doptvplc":
        out, lopt = o.ws2doptvplc(y.astype("int16"), nd, p, lc)
        return np.asarray(out), np.asarray(lopt)
    if variant == "ws2dwcv":
        out, lopt = o.ws2dwcv(y, nd, srange, bool(robust))
        return np.asarray(out), np.asarray(lopt)
    if variant == "ws2dwcvp":
        out, lopt = o.ws2dwcvp(y, nd, p, srange, bool(robust))
        return np.asarray(out), np.asarray(lopt)
    raise ValueError(variant)


def compile_all():
    """Compile every smoother gufunc once in the parent (before forking workers)."""
    y = np.array([[1.0, 2.0, 4.0, 3.0, 5.0, 9.0]])
    sr = np.arange(-1.0, 1.0, 0.5)
    call_variant("ws2dgu", y, 0.0, lam=1.0)
    call_variant("ws2dpgu", y, 0.0, lam=1.0, p=0.9)
    call_variant("ws2doptv", y, 0.0, srange=sr)
    call_variant("ws2doptvp", y, 0.0, p=0.9, srange=sr)
    call_variant("ws2doptvplc", y, 0.0, p=0.9, lc=0.2)
    call_variant("ws2dwcv", y, 0.0, srange=sr, robust=False)
    call_variant("ws2dwcvp", y, 0.0, p=0.9, srange=sr, robust=False)
    from hdc.algo.ops.ws2d import ws2d
    ws2d(y[0], 1.0, np.ones(6))


# ------------------------------------------------------------------ references
def ref_curve(y, valid, lam, p=None):
    """Reference fitted curve (float64, refined) for fixed lambda. y: (N,n) with anything at invalid
    cells (they get zero weight and are zeroed before the solve). Returns (z, tie_margin)."""
    few = valid.sum(axis=1) < 2          # not enough cells: the system is singular, callers skip these
    valid = np.where(few[:, None], True, valid)
    Y = np.where(valid, y, 0.0)
    Y = np.where(few[:, None], 0.0, Y)
    W = valid.astype(np.float64)
    if p is None:
        z, _ = pls.batch_solve(Y, lam, W)
        return z, np.full(Y.shape[0], np.inf)
    return pls.batch_irls(Y, valid, lam, p)


def rounding_ok(out, z):
    """out int16 equals a rounding of z to the nearest integer (either neighbour inside the band)."""
    return np.abs(out.astype(np.float64) - z) <= 0.5 + ROUND_BAND


def in_int16(z):
    return (z > I16_MIN + 1).all(axis=1) & (z < I16_MAX - 1).all(axis=1)


def near_tie_cells(z):
    """Cells whose unrounded value sits within the guard band of a rounding tie."""
    frac = np.abs(z - np.floor(z) - 0.5)
    return frac <= ROUND_BAND

"""C04 — V-curve selection is optimal on the grid and self-consistent.

Bounded exhaustive product: all words over {ND, lo, mid, hi} (>= 2 valid cells) x a grid of uniformly
spaced sranges x p in {none, 0.1, 0.9} x lag-1 correlations (around the 0.5 threshold, NaN).
Oracle: (a) structure - lopt is the log10-midpoint of two consecutive grid entries; (b) optimality -
the V-curve recomputed from its definition with reference solves and first-order error bounds, the
reported interval must be admissible; (c) asymmetric: union of the admissible sets under three
readings of the statement; (d) bit-exact self-consistency with the fixed-lambda smoother and the
float32 sgrid; (e) grid choice from lc.
"""
from __future__ import annotations

import itertools

import numpy as np

from .. import sse
from ..oracle import select
from . import whit_common as wc

LEVEL = "exploration"
RULE = ("words x sranges x p x lc; non-trivial = word whose symmetric V-curve has a unique admissible minimum "
        "(decided case) and at least one missing cell or a non-linear valid part; distinct = (word, srange, p)")
ASSUMPTIONS = [
    "for the asymmetric variants the statement does not say on which reweighting iterate the criterion is "
    "evaluated: the admissible set is the union over warm-started (10 passes carried along the grid), "
    "cold-started (10 passes) and converged expectile curves",
    "a grid interval is admissible when its V value minus its float error bound does not exceed the smallest "
    "upper bound; error bounds come from the condition number of the reference system (16*cond*u)",
]


def sranges(thorough):
    out = []
    starts = (-3.0, -2.0, 0.0, 1.0)
    steps = (0.1, 0.2, 0.5, 1.0)
    counts = (3, 4, 5, 8, 16, 40)
    if thorough:
        for s0 in starts:
            for st in steps:
                for c in counts:
                    if s0 + st * (c - 1) <= 6.0:
                        out.append((s0, st, c))
    else:
        out = [(-2.0, 1.0, 4), (-2.0, 0.2, 16), (0.0, 0.2, 16), (-3.0, 0.5, 8), (1.0, 0.1, 5), (-2.0, 0.5, 3),
               (0.0, 1.0, 5), (-3.0, 0.2, 40), (-2.0, 0.1, 16), (1.0, 0.5, 4), (0.0, 0.5, 8), (-3.0, 1.0, 3)]
    return out


def mk_srange(spec):
    s0, st, c = spec
    return s0 + st * np.arange(c)


def k_of(lopt, srange):
    """Index of the grid interval whose log10-midpoint is lopt, or -1."""
    mids = 10.0 ** ((srange[:-1] + srange[1:]) / 2)
    rel = np.abs(lopt[:, None] - mids[None, :]) / mids[None, :]
    k = rel.argmin(axis=1)
    ok = rel[np.arange(len(lopt)), k] <= 1e-12
    return np.where(ok, k, -1)


def check_batch(variant, y, valid, nd, srange, p_env, p, words_desc=None, lc=None):
    N, n = y.shape
    sub = {"ws2doptv": "vcurve_sym", "ws2doptvp": "vcurve_asym", "ws2doptvplc": "vcurve_lc"}[variant]
    case = lambda j: {"kind": "vc", "variant": variant, "y": y[j].tolist(), "nd": nd, "srange": np.asarray(srange).tolist(),
                      "p": p_env, "lc": None if lc is None else repr(float(lc))}
    key = lambda j: {"variant": variant, "y": y[j].tolist(), "srange": [float(srange[0]), float(srange[1] - srange[0]), len(srange)], "p": p_env,
                     "lc": None if lc is None else repr(float(lc))}
    try:
        if variant == "ws2doptvplc":
            out, lopt = wc.call_variant(variant, y, nd, p=p_env, lc=lc)
        else:
            out, lopt = wc.call_variant(variant, y, nd, p=p_env, srange=srange)
    except Exception as e:
        p.violation(sub, key(0), case(0), f"{variant} raised {type(e).__name__}: {e}")
        return None
    p.count(sub, evaluations=N)
    # (a) structure
    k = k_of(lopt, srange)
    for j in np.nonzero(k < 0)[0][:3]:
        p.violation(sub, key(j), case(j),
                    f"{variant}: reported lambda {float(lopt[j])!r} is not the log10-midpoint of two consecutive srange entries "
                    f"{np.asarray(srange).tolist()} for y={y[j].tolist()}")
    # (d) self-consistency, bit-exact
    fixed = "ws2dgu" if p_env is None else "ws2dpgu"
    exp, _ = wc.call_variant(fixed, y, nd, lam=lopt, p=p_env)
    bad = (exp != out).any(axis=1)
    for j in np.nonzero(bad)[0][:3]:
        p.violation(sub, key(j), case(j),
                    f"{variant}: band {out[j].tolist()} is not {fixed} at the reported lambda {float(lopt[j])!r} ({exp[j].tolist()}) for y={y[j].tolist()}")
    # (b)/(c) optimality
    if p_env is None:
        v, verr, adm = select.vcurve_sym(y, valid, srange)
    else:
        adm = None
        for mode in ("warm", "cold", "conv"):
            v, verr, a = select.vcurve_asym(y, valid, srange, p_env, mode)
            adm = a if adm is None else (adm | a)
    nadm = adm.sum(axis=1)
    sel = k >= 0
    okk = np.zeros(N, bool)
    okk[sel] = adm[np.nonzero(sel)[0], k[sel]]
    p.count(sub, ambiguous=int((nadm > 1).sum()), nontrivial=int((nadm == 1).sum()))
    for j in np.nonzero(sel & ~okk)[0][:3]:
        p.violation(sub, key(j), case(j),
                    f"{variant}: reported lambda 10**{np.log10(lopt[j]):.3f} (interval {int(k[j])}) does not minimise the V-curve for y={y[j].tolist()} "
                    f"srange={np.asarray(srange).tolist()} p={p_env}; reference v={np.round(v[j], 6).tolist()} admissible intervals {np.nonzero(adm[j])[0].tolist()}")
    return out, lopt, k, adm


def _task(task, p):
    n, spec, p_env, letters = task
    idx, valid = wc.words(n)
    nd = -3000.0
    y = wc.render(idx, letters, nd)
    sel = valid.sum(axis=1) >= 2
    y, valid = y[sel], valid[sel]
    srange = mk_srange(spec)
    variant = "ws2doptv" if p_env is None else "ws2doptvp"
    check_batch(variant, y, valid, nd, srange, p_env, p)
    if n == 5:
        p.sample("vcurve_sym" if p_env is None else "vcurve_asym",
                 {"word": y[11].tolist(), "srange": spec, "p": p_env})


LCS = [-1.0, 0.0, 0.49, 0.5, float(np.nextafter(0.5, 1.0)), 0.51, 1.0, float("nan")]


def grid_for(lc):
    """Grid stated by the property: -2..1.0 step 0.2 where lc > 0.5, 0..3.0 elsewhere (NaN included)."""
    return np.arange(-2, 1.2, 0.2) if lc > 0.5 else np.arange(0, 3.2, 0.2)


def _lc_task(task, p):
    n, lc, p_env, letters = task
    idx, valid = wc.words(n)
    nd = -3000.0
    y = wc.render(idx, letters, nd)
    sel = valid.sum(axis=1) >= 2
    y, valid = y[sel], valid[sel]
    grid = grid_for(lc)
    # the kernel builds its own arange: compare by interval index, not bitwise lambda
    r = check_batch("ws2doptvplc", y, valid, nd, _snap(grid), p_env, p, lc=lc)
    if r is None:
        return
    out, lopt, k, adm = r
    out2, lopt2 = wc.call_variant("ws2doptvp", y, nd, p=p_env, srange=grid)
    k2 = k_of(lopt2, _snap(grid))
    differ = (k != k2) & (k >= 0)
    # differing interval is only tolerated where the reference criterion is tied
    for j in np.nonzero(differ)[0]:
        if not (adm[j, k[j]] and adm[j].sum() > 1):
            p.violation("vcurve_lc", {"variant": "ws2doptvplc", "y": y[j].tolist(), "lc": repr(lc), "p": p_env},
                        {"kind": "lc", "y": y[j].tolist(), "nd": nd, "lc": repr(lc), "p": p_env},
                        f"ws2doptvplc(lc={lc}) selected interval {int(k[j])} but ws2doptvp on the stated grid "
                        f"{grid[0]:.1f}..{grid[-1]:.1f} selects {int(k2[j])} for y={y[j].tolist()}")
    p.count("vcurve_lc", evaluations=len(y))
    if n == 5:
        p.sample("vcurve_lc", {"word": y[5].tolist(), "lc": repr(lc), "p": p_env, "grid": [float(grid[0]), float(grid[-1])]})


def _snap(grid):
    return np.round(np.asarray(grid, dtype=np.float64), 10)


def accessor(ctx, letters):
    import pandas as pd
    import xarray as xr
    sub = "accessor"
    n = 5
    idx, valid = wc.words(n)
    N = idx.shape[0]
    nd = -3000
    y = wc.render(idx, letters, float(nd))
    time = pd.date_range("2001-01-01", periods=n, freq="10D")
    coords = {"time": time, "y": np.arange(32), "x": np.arange(32)}
    srange = np.arange(-2, 1.2, 0.2)
    for name in (None, "ndvi"):
        da = xr.DataArray(y.astype("int16").reshape(32, 32, n), dims=("y", "x", "time"), coords=coords, name=name)
        for p_env in (None, 0.9, 0.5):
            ds = da.hdc.whit.whitsvc(nodata=nd, srange=srange, p=p_env)
            variant = "ws2doptv" if p_env is None else "ws2doptvp"
            out, lopt = wc.call_variant(variant, y, float(nd), p=p_env, srange=srange)
            bname = name or "band"
            ctx.count(sub, evaluations=N, nontrivial=N if name is None else 0)
            msg = None
            if set(ds.data_vars) != {bname, "sgrid"}:
                msg = f"dataset variables {sorted(ds.data_vars)} (expected {bname!r} and 'sgrid')"
            elif not np.array_equal(ds[bname].transpose("y", "x", "time").values.reshape(N, n), out):
                msg = "band differs from the kernel output"
            elif ds["sgrid"].dtype != np.float32:
                msg = f"sgrid dtype {ds['sgrid'].dtype}"
            else:
                with np.errstate(all="ignore"):
                    exp = np.log10(lopt).astype("float32")
                got = ds["sgrid"].values.reshape(N)
                if not np.array_equal(got, exp, equal_nan=True):
                    msg = "sgrid is not float32(log10(lopt))"
            if msg:
                ctx.violation(sub, {"call": "whitsvc", "name": name, "p": p_env}, {"kind": "acc", "name": name, "p": p_env},
                              f"whitsvc(srange, p={p_env}) name={name}: {msg}")
        # lc raster: every lc value on every word
        for rot in range(len(LCS) if ctx.thorough() else 2):
            lcv = np.array(LCS)[(np.arange(N) + rot) % len(LCS)]
            lcda = xr.DataArray(lcv.reshape(32, 32), dims=("y", "x"), coords={"y": np.arange(32), "x": np.arange(32)})
            out, lopt = wc.call_variant("ws2doptvplc", y, float(nd), p=0.9, lc=lcv)
            for how, dsx in (("(y,x) raster", lambda: da.hdc.whit.whitsvc(nodata=nd, lc=lcda, p=0.9)),
                             ("raster given as (x,y)", lambda: da.hdc.whit.whitsvc(nodata=nd, lc=lcda.transpose("x", "y"), p=0.9)),
                             ("cube given as (x,time,y)", lambda: da.transpose("x", "time", "y").hdc.whit.whitsvc(nodata=nd, lc=lcda, p=0.9))):
                ds = dsx()
                ctx.count(sub, evaluations=N)
                if not np.array_equal(ds[name or "band"].transpose("y", "x", "time").values.reshape(N, n), out):
                    ctx.violation(sub, {"call": "whitsvc(lc)", "name": name, "how": how}, {"kind": "acc", "name": name, "p": 0.9},
                                  f"whitsvc(lc=raster) [{how}]: band differs from the kernel called per pixel (the raster must be matched to pixels by dimension name)")
    try:
        da.hdc.whit.whitsvc(nodata=nd, lc=lcda)
        ctx.violation(sub, {"call": "whitsvc(lc) without p"}, {"kind": "acc", "name": None, "p": None}, "whitsvc(lc=...) without p did not raise")
    except ValueError:
        pass
    ctx.sample(sub, {"cube": "all 1024 words of length 5", "lc_values": [repr(v) for v in LCS]})


def long_selfconsistency(ctx):
    """Long, slowly converging series with extreme envelopes: the band must still be exactly the fixed-lambda
    asymmetric smoother at the reported lambda (which always starts its reweighting from the zero curve)."""
    sub = "selfconsistency_long"
    nd = -3000.0
    t4 = np.arange(400)
    walk = np.round(np.cumsum(((t4 * 7919 + 13) % 601 - 300))).clip(-10000, 10000).astype(np.float64)
    t = np.arange(144)
    seasonal = np.round(3000 + 2500 * np.sin(t / 36 * 2 * np.pi) + ((t * 131) % 37 - 18) * 30)
    fam = {
        "walk400": walk,
        "walk400_floor": np.maximum(walk, np.percentile(walk, 35)),
        "steps400": np.round(((t4 // 37) % 5) * 1800 + ((t4 * 13) % 29) * 25).astype(np.float64),
        "seasonal_floor": np.maximum(seasonal, 2200.0),
        "seasonal_ceiling": np.minimum(seasonal, 4000.0),
    }
    for name, y in fam.items():
        Y = y[None, :]
        for p_env in (0.01, 0.99, 0.001, 0.02, 0.98):
            for srange in (np.arange(-2, 1.2, 0.2), np.arange(0, 3.2, 0.2), np.arange(1.0, 4.5, 0.5)):
                for variant, kw in (("ws2doptvp", dict(srange=srange)),):
                    out, lopt = wc.call_variant(variant, Y, nd, p=p_env, **kw)
                    exp, _ = wc.call_variant("ws2dpgu", Y, nd, lam=lopt, p=p_env)
                    ctx.count(sub, evaluations=1, nontrivial=1)
                    if not np.array_equal(out, exp):
                        j = np.nonzero(out[0] != exp[0])[0]
                        ctx.violation(sub, {"series": name, "p": p_env, "srange": [float(srange[0]), len(srange)], "variant": variant},
                                      {"kind": "longsc"},
                                      f"{variant} on series {name} (n={len(y)}), p={p_env}: band differs from ws2dpgu at the reported lambda {float(lopt[0])!r} "
                                      f"at {len(j)} cells (e.g. cell {int(j[0])}: {int(out[0, j[0]])} vs {int(exp[0, j[0]])})")
            if np.abs(y).max() < 32000:
                for lc in (0.2, 0.9):
                    out, lopt = wc.call_variant("ws2doptvplc", Y, nd, p=p_env, lc=lc)
                    exp, _ = wc.call_variant("ws2dpgu", Y, nd, lam=lopt, p=p_env)
                    ctx.count(sub, evaluations=1, nontrivial=1)
                    if not np.array_equal(out, exp):
                        ctx.violation(sub, {"series": name, "p": p_env, "lc": lc, "variant": "ws2doptvplc"}, {"kind": "longsc"},
                                      f"ws2doptvplc on series {name}, p={p_env}, lc={lc}: band differs from ws2dpgu at the reported lambda {float(lopt[0])!r}")
    ctx.sample(sub, {"series": list(fam), "p": [0.01, 0.99, 0.001, 0.02, 0.98]})


def long_series_family():
    out = {}
    for n in (50, 120, 200):
        t = np.arange(n)
        seasonal = np.round(3000 + 2500 * np.sin(t / 36 * 2 * np.pi) + ((t * 131) % 37 - 18) * 40 + ((t * 7919) % 101 - 50) * 6)
        smooth = np.round(4000 + 3000 * np.sin(t / 36 * 2 * np.pi))
        rough = np.round(2000 + ((t * 7919) % 997) * 5.0)
        kink = seasonal.copy()
        kink[-2:] += 900
        for name, y in (("seasonal", seasonal), ("smooth", smooth), ("rough", rough), ("kink_end", kink)):
            for gname, valid in (("all", np.ones(n, bool)), ("every4", t % 4 != 1), ("outage", ~((t >= n // 3) & (t < n // 3 + 9))), ("lead_gap", t >= 3)):
                out[f"{name}_{n}_{gname}"] = (np.where(valid, y, -3000.0), valid)
    return out


def long_optimality(ctx):
    """V-curve optimality, structure and self-consistency on longer series (n = 50..200) with gap layouts."""
    sub = "long_optimality"
    nd = -3000.0
    fam = long_series_family()
    names = list(fam)
    for n in (50, 120, 200):
        sel = [k for k in names if f"_{n}_" in k]
        Y = np.array([fam[k][0] for k in sel])
        V = np.array([fam[k][1] for k in sel])
        for srange in (np.arange(-2, 1.2, 0.2), np.arange(0, 3.2, 0.2), np.arange(-1.0, 4.5, 0.5)):
            for p_env in (None, 0.9, 0.5):
                variant = "ws2doptv" if p_env is None else "ws2doptvp"
                check_batch(variant, Y, V, nd, srange, p_env, ctx)
        ctx.count(sub, evaluations=len(sel), nontrivial=len(sel))
    ctx.sample(sub, {"series": names[:6], "lengths": [50, 120, 200]})


def run(ctx):
    wc.compile_all()
    letters = wc.letters_for(ctx.seed)
    maxn = 8 if ctx.thorough() else 7
    tasks = []
    specs = sranges(ctx.thorough())
    for n in range(maxn, 4, -1):
        for si, spec in enumerate(specs):
            tasks.append((n, spec, None, letters))
            # the asymmetric references cost ~30 solves per grid entry: longest words on a sub-grid of sranges
            if n <= 6 or (n == 7 and (ctx.thorough() and si % 8 == 0 or not ctx.thorough() and si < 3)):
                for p_env in (0.1, 0.9):
                    tasks.append((n, spec, p_env, letters))
                if n <= 6 and si % 4 == 0:
                    tasks.append((n, spec, 0.5, letters))     # equal weights on both sides are still weights of 0.5, not 1
    tasks.sort(key=lambda t: -(4 ** t[0]) * t[1][2] * (1 if t[2] is None else 8))
    ctx.pmap(_task, tasks)
    ltasks = [(n, lc, p_env, letters) for n in range(min(maxn, 7), 4, -1) for lc in LCS for p_env in (0.1, 0.9)]
    ctx.pmap(_lc_task, ltasks)
    ctx.note("letters", letters)
    ctx.note("sranges", [list(s) for s in sranges(ctx.thorough())])
    ctx.note("lc_values", [repr(v) for v in LCS])
    accessor(ctx, letters)
    long_selfconsistency(ctx)
    long_optimality(ctx)
    from . import spell_common
    spell_common.run(ctx, "C04")



def replay(sub, case, p):
    if case.get("kind") == "spelling":
        from . import spell_common
        spell_common.run(p, "C04")
        return
    if case["kind"] == "longsc":
        long_selfconsistency(p)
        return
    if case["kind"] == "vc":
        y = np.asarray([case["y"]], dtype=np.float64)
        valid = y != case["nd"]
        lc = None if case.get("lc") is None else float(case["lc"])
        check_batch(case["variant"], y, valid, case["nd"], np.asarray(case["srange"]), case["p"], p, lc=lc)
    elif case["kind"] == "lc":
        y = np.asarray([case["y"]], dtype=np.float64)
        valid = y != case["nd"]
        lc = float(case["lc"])
        grid = grid_for(lc)
        r = check_batch("ws2doptvplc", y, valid, case["nd"], _snap(grid), case["p"], p, lc=lc)
        if r is not None:
            out, lopt, k, adm = r
            out2, lopt2 = wc.call_variant("ws2doptvp", y, case["nd"], p=case["p"], srange=grid)
            k2 = k_of(lopt2, _snap(grid))
            if k[0] != k2[0] and not (adm[0, k[0]] and adm[0].sum() > 1):
                p.violation(sub, {}, case, "grid chosen from lc differs from the stated grid")
    else:
        p.thorough = lambda: False
        accessor(p, wc.letters_for(0))

"""C10 — Mann-Kendall trend follows its definition and symmetries.

Model checking over the trie of rank patterns: state = weak ordering of n points (dense ranks), transition
= append one point at a rank position (the child's prefix, re-ranked, is the parent).  Every state is run
through the real kernels and compared with an exact reference (integer S, rational variance and Sen slope);
on every transition S(s.a) = S(s) + sum sign(a - s_i) is checked on the implementation's own outputs.
"""
from __future__ import annotations

import importlib
import itertools
import math
from collections import Counter
from fractions import Fraction as F

import numpy as np

from .. import sse

LEVEL = "model_checking"
RULE = ("all weak orderings (dense rank patterns) of n points, n = 2..7 (8), plus all words over three values for n = 8..9 (11); non-trivial = pattern with at least one "
        "tie and S != 0; states = patterns, transitions = (parent pattern -> pattern) edges")
ASSUMPTIONS = [
    "float32 outputs are compared with the float32 rounding of the exact value within 1 ulp (p-value: 1e-6 relative + 1e-7 absolute)",
    "the significance flag is only demanded where |p - 0.05| > 1e-9 (never closer than 1e-3 inside the explored scope)",
]


def _st():
    import hdc.algo  # noqa: F401
    return importlib.import_module("hdc.algo.ops.stats")


def weak_orders(n):
    for s in itertools.product(range(n), repeat=n):
        if len(set(s)) == max(s) + 1:
            yield s


def dense(seq):
    m = {v: i for i, v in enumerate(sorted(set(seq)))}
    return tuple(m[v] for v in seq)


def ref_mk(x):
    """Exact reference for one integer series."""
    n = len(x)
    S = sum((x[j] > x[i]) - (x[j] < x[i]) for i in range(n - 1) for j in range(i + 1, n))
    tau = F(S, n * (n - 1) // 2)
    tp = sum(t * (t - 1) * (2 * t + 5) for t in Counter(x).values())
    var = F(n * (n - 1) * (2 * n + 5) - tp, 18)
    if var == 0:
        z = 0.0 if S == 0 else math.copysign(math.inf, S)
    elif S > 0:
        z = (S - 1) / math.sqrt(var)
    elif S < 0:
        z = (S + 1) / math.sqrt(var)
    else:
        z = 0.0
    pval = math.erfc(abs(z) / math.sqrt(2))
    slopes = sorted(F(x[j] - x[i], j - i) for i in range(n - 1) for j in range(i + 1, n))
    k = len(slopes)
    med = slopes[k // 2] if k % 2 else (slopes[k // 2 - 1] + slopes[k // 2]) / 2
    trend = (1 if z > 0 else -1 if z < 0 else 0) if pval < 0.05 else 0
    return S, tau, pval, med, trend, abs(pval - 0.05), var


def ulp32(a, b):
    a32, b32 = np.float32(a), np.float32(b)
    return abs(float(a32) - float(b32)) <= float(np.spacing(np.abs(b32))) or a32 == b32


def compare(x, got, ref, p, sub, entry):
    tau, pv, sl, tr = got
    S, rtau, rp, rmed, rtrend, margin, var = ref
    msgs = []
    if var == 0:
        return  # constant series: variance 0, Z undefined (n/a for n>=2 non-constant patterns)
    if not ulp32(tau, float(rtau)):
        msgs.append(f"tau {float(tau)!r} != {float(rtau)!r}")
    if not (abs(float(pv) - rp) <= 1e-6 * rp + 1e-7):
        msgs.append(f"p {float(pv)!r} != {rp!r}")
    if not ulp32(sl, float(rmed)):
        msgs.append(f"slope {float(sl)!r} != {float(rmed)!r}")
    if margin > 1e-9 and int(tr) != rtrend:
        msgs.append(f"trend {int(tr)} != {rtrend}")
    if msgs:
        p.violation(sub, {"entry": entry, "x": list(map(int, x))}, {"kind": "mk", "entry": entry, "x": list(map(int, x))},
                    f"{entry}({list(map(int, x))}): " + "; ".join(msgs))


def run_entries(X, p, sub, refs, entries=("gu_i16", "gu_f32", "gu_nd", "1d")):
    st = _st()
    N, n = X.shape
    outs = {}
    if "gu_i16" in entries:
        outs["gu_i16"] = st._mann_kendall_trend_gu(X.astype("int16"))
    if "gu_f32" in entries:
        outs["gu_f32"] = st._mann_kendall_trend_gu(X.astype("float32"))
    if "gu_nd" in entries:
        outs["gu_nd"] = st._mann_kendall_trend_gu_nd(X.astype("int16"), -9999.0)
    for name, o in outs.items():
        o = [np.asarray(a) for a in o]
        for i in range(N):
            compare(X[i], (o[0][i], o[1][i], o[2][i], o[3][i]), refs[i], p, sub, name)
    if "1d" in entries:
        for i in range(N):
            r = st.mann_kendall_trend_1d(X[i].astype("int16"))
            compare(X[i], r, refs[i], p, sub, "mann_kendall_trend_1d")
    return outs


def _task(task, p):
    n, chunk_id, nchunks, scale, shift = task
    pats = [s for i, s in enumerate(weak_orders(n)) if i % nchunks == chunk_id]
    if not pats:
        return
    R = np.array(pats, dtype=np.int64)
    X = R * scale + shift
    refs = [ref_mk([int(v) for v in row]) for row in X]
    sub = "patterns"
    outs = run_entries(X, p, sub, refs, entries=("gu_i16", "gu_f32", "gu_nd", "1d") if n <= 6 else ("gu_i16", "gu_f32", "gu_nd"))
    nontriv = sum(1 for s, r in zip(pats, refs) if len(set(s)) < n and r[0] != 0)
    p.count(sub, evaluations=len(pats) * len(outs), states=len(pats), traces_validated_against_impl=len(pats), nontrivial=nontriv)
    for r in refs:
        p.note_min("min_abs_p_minus_alpha", r[5])
    # transition relation on the implementation's own tau: S(child) = S(parent) + sum sign(last - prefix)
    if n > 2:
        st = _st()
        par = np.array([dense(s[:-1]) for s in pats], dtype=np.int64) * scale + shift
        ptau = np.asarray(st._mann_kendall_trend_gu(par.astype("int16"))[0]).astype(np.float64)
        ctau = np.asarray(outs["gu_i16"][0]).astype(np.float64)
        Sp = np.rint(ptau * ((n - 1) * (n - 2) / 2))
        Sc = np.rint(ctau * (n * (n - 1) / 2))
        inc = np.array([sum((s[-1] > v) - (s[-1] < v) for v in s[:-1]) for s in pats])
        bad = Sc != Sp + inc
        p.count(sub, transitions=len(pats))
        for j in np.nonzero(bad)[0][:3]:
            p.violation("edge_relation", {"entry": "gu_i16", "x": X[j].tolist()}, {"kind": "mk", "entry": "gu_i16", "x": X[j].tolist()},
                        f"S({X[j].tolist()}) = {Sc[j]} but S(prefix) = {Sp[j]} and the appended point contributes {inc[j]}")
    # the same patterns spread over the whole int16 range (differences beyond 32767 must not wrap)
    if n <= 6:
        st = _st()
        k = R.max(axis=1) + 1
        Wd = np.where(k[:, None] > 1, -32000 + (R * (64000 // np.maximum(k - 1, 1))[:, None]), 0).astype(np.int64)
        ow = [np.asarray(a) for a in st._mann_kendall_trend_gu(Wd.astype("int16"))]
        for i in range(len(pats)):
            compare(Wd[i], (ow[0][i], ow[1][i], ow[2][i], ow[3][i]), ref_mk([int(v) for v in Wd[i]]), p, "wide_range", "gu_i16")
        p.count("wide_range", evaluations=len(pats), states=len(pats), traces_validated_against_impl=len(pats), nontrivial=int((k > 1).sum()))
    # the same patterns as float32 series whose distinct values lie within 4e-6 .. 6e-5 relative of each other
    # (a strictly increasing image of the ranks: tau, p and the flag are those of the pattern; ties stay exact ties)
    if n <= 7:
        st = _st()
        for base_v, step in ((1000.0, 0.004), (-250.0, 0.001), (16384.0, 1.0 / 64)):
            Xf = (np.float32(base_v) + R.astype(np.float32) * np.float32(step)).astype(np.float32)
            okrows = np.array([len(set(row.tolist())) == len(set(s)) for row, s in zip(Xf, pats)])
            of = [np.asarray(a) for a in st._mann_kendall_trend_gu(Xf)]
            ond = [np.asarray(a) for a in st._mann_kendall_trend_gu_nd(Xf, -9999.0)]
            for nm, o in (("gu_f32", of), ("gu_nd_f32", ond)):
                for i in np.nonzero(okrows)[0]:
                    S, rtau, rp, rmed, rtrend, margin, var = refs[i]
                    if var == 0:
                        continue
                    msgs = []
                    if not ulp32(o[0][i], float(rtau)):
                        msgs.append(f"tau {float(o[0][i])!r} != {float(rtau)!r}")
                    if not (abs(float(o[1][i]) - rp) <= 1e-6 * rp + 1e-7):
                        msgs.append(f"p {float(o[1][i])!r} != {rp!r}")
                    if margin > 1e-9 and int(o[3][i]) != rtrend:
                        msgs.append(f"trend {int(o[3][i])} != {rtrend}")
                    if msgs:
                        case = {"kind": "close", "entry": nm, "ranks": list(map(int, R[i])), "base": base_v, "step": step}
                        p.violation("close_floats", case, case,
                                    f"{nm}(float32 {base_v} + {step} * {list(map(int, R[i]))}): " + "; ".join(msgs) + " (values of the rank pattern itself)")
            p.count("close_floats", evaluations=2 * int(okrows.sum()), states=int(okrows.sum()), traces_validated_against_impl=int(okrows.sum()),
                    nontrivial=sum(1 for s, k in zip(pats, okrows) if k and len(set(s)) < n))
    # symmetries as relations between implementation outputs
    st = _st()
    base = [np.asarray(a) for a in outs["gu_i16"]]
    V = R - 3
    b0 = [np.asarray(a) for a in st._mann_kendall_trend_gu(V.astype("int16"))]
    for name, T, tau_s, slope_f in (
        ("2x+3", 2 * V + 3, 1, lambda s: 2 * s),
        ("x^3", V ** 3, 1, None),
        ("-x", -V, -1, lambda s: -s),
        ("reversed", V[:, ::-1], -1, lambda s: -s),
    ):
        o = [np.asarray(a) for a in st._mann_kendall_trend_gu(np.ascontiguousarray(T).astype("int16"))]
        bad = (o[0] != np.float32(tau_s) * b0[0]) | (o[1] != b0[1]) | (o[3] != tau_s * b0[3])
        if slope_f is not None:
            bad |= ~(np.abs(o[2] - slope_f(b0[2])) <= 2 * np.spacing(np.abs(o[2])))
        p.count("symmetries", evaluations=len(pats), nontrivial=len(pats))
        for j in np.nonzero(bad)[0][:3]:
            p.violation("symmetries", {"map": name, "x": V[j].tolist()}, {"kind": "sym", "map": name, "x": V[j].tolist()},
                        f"under {name}: ({b0[0][j]},{b0[1][j]},{b0[2][j]},{b0[3][j]}) -> ({o[0][j]},{o[1][j]},{o[2][j]},{o[3][j]}) for x={V[j].tolist()}")
    if n == 5 and chunk_id == 0:
        p.sample(sub, {"pattern": list(pats[17]), "values": X[17].tolist(), "S": refs[17][0], "tau": str(refs[17][1]),
                       "p": refs[17][2], "sen_slope": str(refs[17][3]), "trend": refs[17][4]})


def long_series(ctx):
    sub = "long_series"
    st = _st()
    rows = []
    for n in (50, 200):
        t = np.arange(n)
        rows += [
            (t // 5) * 3,                       # ramp with plateaus
            (t % 17) * 10 - (t // 17),          # sawtooth with slow downward drift
            np.where(t % 2 == 0, t, n - t),     # interleaved up/down
            ((t * 7919) % 101) - 50,            # pseudo-random with ties
            np.full(n, 7) + (t == n - 1),       # constant except the last point
            (t >= (7 * n) // 10).astype(int),   # long plateau then a step up (median slope 0, significant S)
            5 - 3 * (t >= (3 * n) // 10).astype(int),   # short plateau then a step down
            np.minimum(t // (n // 3 + 1), 1) * 4 + (t > n - 3),   # two plateaus and a tail
        ]
    for x in rows:
        x = np.asarray(x, dtype=np.int64)
        ref = ref_mk([int(v) for v in x])
        run_entries(x[None, :], ctx, sub, [ref], entries=("gu_i16", "gu_f32", "gu_nd", "1d"))
        ctx.count(sub, evaluations=4, nontrivial=1, states=1, traces_validated_against_impl=1)
    ctx.sample(sub, {"n": [50, 200], "families": ["ramp+plateaus", "sawtooth", "interleaved", "pseudo-random", "constant+1"]})


def _tie_heavy_task(task, p):
    """All words over three values: many ties, long plateaus (series with a zero median slope but significant S)."""
    n, lo, hi = task
    st = _st()
    sub = "tie_heavy"
    idx = sse.word_indices(3, n)[lo:hi]
    X = np.asarray([0, 1, 5])[idx]
    o = [np.asarray(a) for a in st._mann_kendall_trend_gu(X.astype("int16"))]
    nontriv = 0
    for i in range(X.shape[0]):
        ref = ref_mk([int(v) for v in X[i]])
        compare(X[i], (o[0][i], o[1][i], o[2][i], o[3][i]), ref, p, sub, "gu_i16")
        nontriv += int(ref[4] != 0 and ref[3] == 0)
    p.count(sub, evaluations=X.shape[0], states=X.shape[0], traces_validated_against_impl=X.shape[0], nontrivial=nontriv)
    if lo == 0:
        p.sample(sub, {"n": n, "alphabet": [0, 1, 5], "example": X[X.shape[0] // 3].tolist()})


def series_with_score(values_sorted, target_s):
    """A series with the multiset `values_sorted` (ascending) whose Mann-Kendall score is target_s:
    start from the sorted arrangement (maximal S) and swap adjacent ascending neighbours; each swap lowers S by 2."""
    x = list(values_sorted)
    n = len(x)
    s = sum((x[j] > x[i]) - (x[j] < x[i]) for i in range(n - 1) for j in range(i + 1, n))
    i = n - 2
    while s > target_s:
        # find an adjacent strictly ascending pair, scanning from the right and wrapping around
        for _ in range(n):
            if x[i] < x[i + 1]:
                break
            i = i - 1 if i > 0 else n - 2
        else:
            return None
        x[i], x[i + 1] = x[i + 1], x[i]
        s -= 2
        i = i - 1 if i > 0 else n - 2
    return x if s == target_s else None


def _threshold_task(task, p):
    """Decision boundary of the significance flag: for every length and tie structure of a family, the two lattice
    values of S on either side of p = 0.05 (the smallest significant score and the largest non-significant one)."""
    n = task
    st = _st()
    sub = "threshold"
    structures = {"no ties": [], "one pair": [2], "two pairs": [2, 2], "one triple": [3], "five triples": [3] * 5,
                  "half equal": [max(2, n // 2)], "run of 12": [12], "pairs everywhere": [2] * (n // 2)}
    zc = 1.959963984540054
    for name, groups in structures.items():
        if sum(groups) > n:
            continue
        vals = []
        v = 0
        for g in groups:
            vals += [v] * g
            v += 3
        while len(vals) < n:
            vals.append(v)
            v += 3
        vals.sort()
        ref_sorted = ref_mk(vals)
        smax, var = ref_sorted[0], ref_sorted[6]
        if var == 0:
            continue
        # lattice: S = smax, smax-2, ...
        import math
        sd = math.sqrt(var)
        cands = [s_ for s_ in range(smax, -1, -2) if s_ > 0]
        sig = [s_ for s_ in cands if (s_ - 1) / sd > zc]
        non = [s_ for s_ in cands if (s_ - 1) / sd <= zc]
        targets = []
        if sig:
            targets.append(min(sig))
        if non:
            targets.append(max(non))
        for tgt in targets:
            x = series_with_score(vals, tgt)
            if x is None:
                continue
            for sign in (1, -1):
                xs = np.array(x, dtype=np.int64) * sign
                ref = ref_mk([int(v_) for v_ in xs])
                o = [np.asarray(a) for a in st._mann_kendall_trend_gu(xs.astype("int16")[None, :])]
                compare(xs, (o[0][0], o[1][0], o[2][0], o[3][0]), ref, p, sub, "gu_i16")
                of = [np.asarray(a) for a in st._mann_kendall_trend_gu_nd(xs.astype("float32")[None, :], -9999.0)]
                compare(xs, (of[0][0], of[1][0], of[2][0], of[3][0]), ref, p, sub, "gu_nd_f32")
                p.count(sub, evaluations=2, states=1, traces_validated_against_impl=1, nontrivial=1)
                p.note_min("min_abs_p_minus_alpha_threshold_family", ref[5])
    if n == 30:
        p.sample(sub, {"n": n, "tie_structures": list(structures), "targets": "smallest significant and largest non-significant S"})


def accessor(ctx):
    import warnings
    import pandas as pd
    import xarray as xr
    sub = "accessor"
    st = _st()
    n = 5
    pats = list(weak_orders(n))
    X = (np.array(pats, dtype=np.int64) * 7 - 3)
    N = len(pats)
    pad = (-N) % 8
    Xp = np.concatenate([X, np.full((pad, n), -9999)]) if pad else X   # all-nodata pixels fill the cube
    time = pd.date_range("2000-01-01", periods=n, freq="10D")
    refs = [ref_mk([int(v) for v in row]) for row in X]
    with warnings.catch_warnings():
        warnings.simplefilter("ignore")
        for dtype in ("int16", "float32"):
            cube = Xp.astype(dtype).reshape(-1, 8, n)
            for with_nd in (True, False):
                attrs = {"nodata": -9999} if with_nd else {}
                for backend in ("numpy", "dask"):
                    da = xr.DataArray(cube, dims=("y", "x", "time"), coords={"time": time}, attrs=attrs)
                    if backend == "dask":
                        da = da.chunk({"y": 7, "x": 3, "time": -1})
                    ds = da.hdc.algo.mktrend()
                    what = f"mktrend[{dtype},{'nodata' if with_nd else 'no nodata'},{backend}]"
                    if list(ds.data_vars) != ["tau", "pvalue", "slope", "trend"]:
                        ctx.violation(sub, {"what": what, "vars": list(ds.data_vars)}, {"kind": "acc"}, f"{what}: variables {list(ds.data_vars)}")
                        continue
                    dt = [str(ds[v].dtype) for v in ds.data_vars]
                    if dt != ["float32", "float32", "float32", "int8"]:
                        ctx.violation(sub, {"what": what, "dtypes": dt}, {"kind": "acc"}, f"{what}: dtypes {dt}")
                    if ds.trend.attrs.get("nodata") != -2:
                        ctx.violation(sub, {"what": what, "attr": "trend.nodata"}, {"kind": "acc"}, f"{what}: trend nodata attribute {ds.trend.attrs.get('nodata')}")
                    o = [ds[v].values.reshape(-1) for v in ("tau", "pvalue", "slope", "trend")]
                    ctx.count(sub, evaluations=N, nontrivial=N if (dtype == "int16" and with_nd and backend == "numpy") else 0)
                    for i in range(N):
                        compare(X[i], (o[0][i], o[1][i], o[2][i], o[3][i]), refs[i], ctx, sub, what)
                    if with_nd and pad:
                        tail = [a[N:] for a in o]
                        if not (np.all(tail[0] == -9999) and np.all(tail[1] == -9999) and np.all(tail[2] == -9999) and np.all(tail[3] == -2)):
                            ctx.violation(sub, {"what": what, "pixel": "all nodata"}, {"kind": "acc"},
                                          f"{what}: an all-nodata pixel gave tau={tail[0][0]} p={tail[1][0]} slope={tail[2][0]} trend={tail[3][0]} (expected nodata, -2)")
    # nodata = 0 as attribute: an all-zero pixel is entirely nodata
    with warnings.catch_warnings():
        warnings.simplefilter("ignore")
        Z = np.concatenate([X[:7] + 10, np.zeros((1, n), dtype=np.int64)])
        for dtype in ("int16", "float32"):
            for backend in ("numpy", "dask"):
                da = xr.DataArray(Z.astype(dtype).reshape(2, 4, n), dims=("y", "x", "time"), coords={"time": time}, attrs={"nodata": 0})
                if backend == "dask":
                    da = da.chunk({"y": 1, "x": 3, "time": -1})
                ds = da.hdc.algo.mktrend()
                o = [ds[v].values.reshape(-1) for v in ("tau", "pvalue", "slope", "trend")]
                ctx.count(sub, evaluations=8, nontrivial=1)
                if not (o[0][7] == 0 and o[1][7] == 0 and o[2][7] == 0 and o[3][7] == -2):
                    ctx.violation(sub, {"what": "nodata attribute 0", "dtype": dtype, "backend": backend}, {"kind": "acc"},
                                  f"mktrend with attrs nodata=0 [{dtype},{backend}]: the all-nodata pixel gave tau={o[0][7]} p={o[1][7]} slope={o[2][7]} trend={o[3][7]} (expected 0, 0, 0, -2)")
                for i in range(7):
                    compare(Z[i], (o[0][i], o[1][i], o[2][i], o[3][i]), ref_mk([int(v) for v in Z[i]]), ctx, sub, f"mktrend[nodata=0,{dtype},{backend}]")
    # views: time is the last dimension but not contiguous in memory (transposed time-first cube, Fortran order,
    # every second step of a longer cube, reversed time axis)
    with warnings.catch_warnings():
        warnings.simplefilter("ignore")
        n2 = 2 * n
        time2 = pd.date_range("2000-01-01", periods=n2, freq="10D")
        for dtype in ("int16", "float32"):
            cube = Xp.astype(dtype).reshape(-1, 8, n)
            tyx = np.ascontiguousarray(np.moveaxis(cube, -1, 0))
            wide = np.zeros(cube.shape[:2] + (n2,), dtype=dtype)
            wide[..., ::2] = cube
            wide[..., 1::2] = 77
            views = {
                "transposed time-first cube": xr.DataArray(tyx, dims=("time", "y", "x"), coords={"time": time}, attrs={"nodata": -9999}).transpose("y", "x", "time"),
                "Fortran-ordered cube": xr.DataArray(np.asfortranarray(cube), dims=("y", "x", "time"), coords={"time": time}, attrs={"nodata": -9999}),
                "every second step of a longer cube": xr.DataArray(wide, dims=("y", "x", "time"), coords={"time": time2}, attrs={"nodata": -9999}).isel(time=slice(None, None, 2)),
            }
            for vname, dav in views.items():
                ds = dav.hdc.algo.mktrend()
                o = [ds[v].transpose("y", "x").values.reshape(-1) for v in ("tau", "pvalue", "slope", "trend")]
                ctx.count(sub, evaluations=N, nontrivial=N)
                for i in range(N):
                    compare(X[i], (o[0][i], o[1][i], o[2][i], o[3][i]), refs[i], ctx, sub, f"mktrend[{dtype}, {vname}]")
    # yxt driver
    r = np.asarray(st.mann_kendall_trend_yxt(X.astype("int16").reshape(N, 1, n))).reshape(N, 4)
    for i in range(N):
        compare(X[i], tuple(r[i]), refs[i], ctx, sub, "mann_kendall_trend_yxt")
    ctx.count(sub, evaluations=N)
    ctx.sample(sub, {"cube": "all 541 rank patterns of 5 points (+ all-nodata padding pixels)", "variants": "int16/float32 x nodata attr x numpy/dask"})


def attr_histories(ctx):
    """mktrend() on one long-lived object whose nodata attribute is edited in place between calls (every history of
    settings up to depth 3): always the result a fresh object with the current attributes gives."""
    import pandas as pd
    import xarray as xr
    from .. import histories
    sub = "attr_histories"
    n = 5
    time = pd.date_range("2000-01-01", periods=n, freq="10D")
    rows = [[3, 1, 4, 1, 5], [9, 7, 5, 3, 1], [1, 2, 2, 3, 3], [-9999] * n, [0] * n, [7] * n, [0, 7, 0, 7, 7], [2, 2, 2, 2, 2]]
    for dtype in ("int16", "float32"):
        data = np.array(rows).astype(dtype).reshape(2, 4, n)

        def make():
            return xr.DataArray(data.copy(), dims=("y", "x", "time"), coords={"time": time})

        def op(da):
            ds = da.hdc.algo.mktrend()
            return [ds[v].values.copy() for v in ("tau", "pvalue", "slope", "trend")]

        def same(a, b):
            return all(np.array_equal(x, y, equal_nan=True) for x, y in zip(a, b))

        h = histories.explore(make, "nodata", [histories.ABSENT, -9999, 0, 7], op, same, 3, ctx, sub, f"mktrend[{dtype}]")
        ctx.note_add("attr_histories", h)
    ctx.sample(sub, {"attr": "nodata", "values": ["<absent>", -9999, 0, 7], "depth": 3, "pixels": rows})


def run(ctx):
    st = _st()
    z = np.array([[1, 2, 3]], dtype="int16")
    st._mann_kendall_trend_gu(z); st._mann_kendall_trend_gu(z.astype("float32")); st._mann_kendall_trend_gu_nd(z, -9999.0)
    st.mann_kendall_trend_1d(z[0]); st.mann_kendall_trend_yxt(z.reshape(1, 1, 3))
    rng = sse.seeded_rng(ctx.seed, "c10")
    scale, shift = (7, -3) if ctx.seed == 0 else (rng.randint(1, 900), rng.randint(-2000, 2000))
    maxn = 8 if ctx.thorough() else 7
    tasks = []
    for n in range(maxn, 1, -1):
        nch = {8: 64, 7: 16, 6: 4}.get(n, 1)
        for c in range(nch):
            tasks.append((n, c, nch, scale, shift))
    ctx.pmap(_task, tasks)
    ttasks = []
    for n in range(8, (12 if ctx.thorough() else 10)):
        tot = 3 ** n
        for lo in range(0, tot, 4096):
            ttasks.append((n, lo, min(tot, lo + 4096)))
    ctx.pmap(_tie_heavy_task, ttasks[::-1])
    ctx.pmap(_threshold_task, list(range(201 if ctx.thorough() else 81, 4, -1)))
    ctx.note("value_map", f"rank * {scale} + {shift}")
    ctx.note("max_points", maxn)
    long_series(ctx)
    accessor(ctx)
    attr_histories(ctx)


def replay(sub, case, p):
    if case["kind"] == "mk":
        x = np.asarray(case["x"], dtype=np.int64)
        run_entries(x[None, :], p, sub, [ref_mk([int(v) for v in x])])
    elif case["kind"] == "sym":
        st = _st()
        V = np.asarray([case["x"]], dtype=np.int64)
        T = {"2x+3": 2 * V + 3, "x^3": V ** 3, "-x": -V, "reversed": V[:, ::-1]}[case["map"]]
        for arr in (V, T):
            x = arr[0]
            run_entries(np.ascontiguousarray(arr), p, sub, [ref_mk([int(v) for v in x])], entries=("gu_i16",))
    elif case["kind"] == "close":
        st = _st()
        r = np.asarray(case["ranks"], dtype=np.int64)
        xf = (np.float32(case["base"]) + r.astype(np.float32) * np.float32(case["step"])).astype(np.float32)[None, :]
        o = st._mann_kendall_trend_gu(xf) if case["entry"] == "gu_f32" else st._mann_kendall_trend_gu_nd(xf, -9999.0)
        compare_close = ref_mk([int(v) for v in r])
        got = [np.asarray(a)[0] for a in o]
        msgs = []
        if not ulp32(got[0], float(compare_close[1])):
            msgs.append(f"tau {float(got[0])!r} != {float(compare_close[1])!r}")
        if not (abs(float(got[1]) - compare_close[2]) <= 1e-6 * compare_close[2] + 1e-7):
            msgs.append(f"p {float(got[1])!r} != {compare_close[2]!r}")
        if compare_close[5] > 1e-9 and int(got[3]) != compare_close[4]:
            msgs.append(f"trend {int(got[3])} != {compare_close[4]}")
        if msgs:
            p.violation(sub, case, case, f"{case['entry']}(float32 {case['base']} + {case['step']} * {case['ranks']}): " + "; ".join(msgs))
    elif case["kind"] == "attr_history":
        attr_histories(p)
    else:
        accessor(p)

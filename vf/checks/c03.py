"""C03 — fixed-lambda smoothers return the rounded PLS / expectile curve.

Bounded exhaustive product: every word over {ND, lo, mid, hi} of length 4..7 (8) with >= 2 valid
cells x lambda grid x p grid through the compiled gufuncs, and as pixels of a cube through
DataArray.hdc.whit.whits (s=, sg=, p=, all dimension orders).  Oracle: dense reference solve of
(W + lambda D'D) z = W y built from the definition (float64 + long-double refinement, cross-checked
against exact rational elimination), asymmetric reweighting from the statement (zero start, 10
passes), rounding with a guard band around ties.
"""
from __future__ import annotations

import itertools
from fractions import Fraction as F

import numpy as np

from .. import sse
from ..oracle import pls
from . import whit_common as wc

LEVEL = "exploration"
RULE = ("all words over {ND,lo,mid,hi} with >=2 valid cells x lambda grid x p grid; non-trivial = word "
        "with at least one missing cell and a non-constant valid part; distinct = (word, lambda, p)")
ASSUMPTIONS = [
    "either integer neighbour is accepted where the reference curve is within 1e-5 of a rounding tie "
    "(half-even vs half-up is not observable in float64)",
    "cases whose reference curve leaves the int16 range are excluded and counted (the property's own carve-out)",
]

LAMS = [1e-3, 10 ** -0.5, 1.0, 10.0, 1e3, 1e5]
PS = [0.05, 0.5, 0.8, 0.95]


def check_fixed(variant, y, valid, nd, lam, p_env, p, sub, words_key=None):
    """Compare kernel output for a batch with the reference. lam scalar or (N,)."""
    N, n = y.shape
    try:
        out, _ = wc.call_variant(variant, y, nd, lam=lam, p=p_env)
    except Exception as e:
        p.violation(sub, {"variant": variant, "lam": repr(lam), "p": p_env},
                    {"kind": "fixed", "variant": variant, "y": y[0].tolist(), "nd": nd,
                     "lam": float(np.ravel(lam)[0]), "p": p_env},
                    f"{variant} raised {type(e).__name__}: {e}")
        return None
    enough = valid.sum(axis=1) >= 2
    z, margin = wc.ref_curve(y, valid, lam, p_env)
    inrange = wc.in_int16(z)
    decided = enough & inrange
    ok = wc.rounding_ok(out, z).all(axis=1)
    amb = np.zeros(N, bool)
    if p_env is not None:
        amb = decided & (margin >= 1e-8) & (margin <= 1e-5)
    bad = decided & ~ok & ~amb
    # ambiguous words: decide with the exact rational reweighting
    lam_a = np.broadcast_to(np.asarray(lam, dtype=np.float64), (N,))
    for j in np.nonzero(amb)[0]:
        yy = [F(float(v)) if valid[j, i] else F(0) for i, v in enumerate(y[j])]
        ze, _ = pls.frac_irls(yy, valid[j].tolist(), F(float(lam_a[j])), F(p_env))
        zf = np.array([float(v) for v in ze])
        if not wc.rounding_ok(out[j], zf).all():
            bad[j] = True
            z[j] = zf
    p.count(sub, evaluations=N, excluded=int((enough & ~inrange).sum()), ambiguous=int(amb.sum()),
            rounding_tie_cells=int(wc.near_tie_cells(z[decided]).sum()) if decided.any() else 0)
    for j in np.nonzero(bad)[0][:5]:
        yl = y[j].tolist()
        p.violation(
            sub, {"variant": variant, "y": yl, "nd": nd, "lam": repr(float(lam_a[j])), "p": p_env},
            {"kind": "fixed", "variant": variant, "y": yl, "nd": nd, "lam": float(lam_a[j]), "p": p_env},
            f"{variant}(y={yl}, lambda={float(lam_a[j])!r}, nodata={nd}" + (f", p={p_env}" if p_env is not None else "") +
            f") -> {out[j].tolist()}, reference curve {np.round(z[j], 4).tolist()}")
    return out


def _kernel_task(task, p):
    n, lam, p_env, letters = task
    idx, valid = wc.words(n)
    nd = -3000.0
    y = wc.render(idx, letters, nd)
    sel = valid.sum(axis=1) >= 2
    y, valid, idx = y[sel], valid[sel], idx[sel]
    variant = "ws2dgu" if p_env is None else "ws2dpgu"
    sub = "fixed_kernel" if p_env is None else "asym_kernel"
    check_fixed(variant, y, valid, nd, lam, p_env, p, sub)
    nontriv = (~valid).any(axis=1) & (np.nanmax(np.where(valid, y, np.nan), axis=1) != np.nanmin(np.where(valid, y, np.nan), axis=1))
    p.count(sub, nontrivial=int(nontriv.sum()))
    # oracle cross-check on a sub-slice: float reference vs exact rational
    for j in range(0, y.shape[0], 211):
        yy = [F(float(v)) if valid[j, i] else F(0) for i, v in enumerate(y[j])]
        if p_env is None:
            ze = pls.frac_solve(yy, F(float(lam)), [int(b) for b in valid[j]])
        else:
            ze, _ = pls.frac_irls(yy, valid[j].tolist(), F(float(lam)), F(p_env))
        zr, _ = wc.ref_curve(y[j:j + 1], valid[j:j + 1], lam, p_env)
        d = max(abs(float(ze[i]) - zr[0, i]) for i in range(n))
        p.note_max("max_oracle_crosscheck_diff", d)
        p.count("oracle_crosscheck", evaluations=1)
        if d > 1e-6:
            raise AssertionError(f"float reference disagrees with exact rational reference by {d} for {y[j].tolist()} lam={lam} p={p_env}")
    if n == 5:
        p.sample(sub, {"word": y[7].tolist(), "nodata": nd, "lambda": repr(lam), "p": p_env})


def lambda_zero(ctx, letters):
    sub = "lambda_zero"
    nd = -3000.0
    for n in (4, 5, 6):
        idx, valid = wc.words(n)
        y = wc.render(idx, letters, nd)
        for variant, p_env in (("ws2dgu", None), ("ws2dpgu", 0.9)):
            out, _ = wc.call_variant(variant, y, nd, lam=0.0, p=p_env)
            ctx.count(sub, evaluations=y.shape[0], nontrivial=y.shape[0])
            bad = (out != y.astype(np.int16)).any(axis=1)
            for j in np.nonzero(bad)[0][:3]:
                ctx.violation(sub, {"variant": variant, "y": y[j].tolist()},
                              {"kind": "lam0", "variant": variant, "y": y[j].tolist(), "nd": nd, "p": p_env},
                              f"{variant} with lambda=0 changed the input {y[j].tolist()} -> {out[j].tolist()}")
    ctx.sample(sub, {"words": "all of length 4..6", "lambda": 0})


def accessor(ctx, letters):
    """Words as pixels of a cube through whits(s=), whits(sg=), p, all dimension orders."""
    import pandas as pd
    import xarray as xr
    sub = "accessor"
    nd = -3000
    n = 5
    idx, valid = wc.words(n)
    N = idx.shape[0]  # 1024 = 32 x 32
    y = wc.render(idx, letters, float(nd))
    cube = y.astype("int16").reshape(32, 32, n)
    time = pd.date_range("2001-01-01", periods=n, freq="10D")
    da = xr.DataArray(cube, dims=("y", "x", "time"), coords={"time": time, "y": np.arange(32), "x": np.arange(32)},
                      attrs={"nodata": nd}, name="band")
    sgvals = np.array([-np.inf, -3.0, -0.5, 0.0, 2.5, 5.0])
    ncubes = 6 if ctx.thorough() else 2
    for p_env in (None, 0.8, 0.5):
        variant = "ws2dgu" if p_env is None else "ws2dpgu"
        # constant s
        for s in (0.5, 100.0):
            exp, _ = wc.call_variant(variant, y, float(nd), lam=s, p=p_env)
            res = da.hdc.whit.whits(nodata=nd, s=s, p=p_env)
            _cmp_acc(ctx, sub, res, exp.reshape(32, 32, n), ("y", "x", "time"), f"whits(s={s}, p={p_env})", y, s, p_env, nd)
            ctx.count(sub, evaluations=N)
        # per-pixel sgrid, rotated so that across cubes every word meets every sg value
        for rot in range(ncubes):
            sg = sgvals[(np.arange(N) + rot) % 6]
            lam = 10.0 ** sg
            exp, _ = wc.call_variant(variant, y, float(nd), lam=lam, p=p_env)
            sgda = xr.DataArray(sg.reshape(32, 32), dims=("y", "x"), coords={"y": np.arange(32), "x": np.arange(32)})
            res = da.hdc.whit.whits(nodata=nd, sg=sgda, p=p_env)
            _cmp_acc(ctx, sub, res, exp.reshape(32, 32, n), ("y", "x", "time"), f"whits(sg=<raster rot {rot}>, p={p_env})", y, lam, p_env, nd)
            # the sgrid is matched to the pixels by dimension name, not by position: hand it over transposed, and
            # hand the cube over in another dimension order
            res_t = da.hdc.whit.whits(nodata=nd, sg=sgda.transpose("x", "y"), p=p_env)
            _cmp_acc(ctx, sub, res_t, exp.reshape(32, 32, n), ("y", "x", "time"), f"whits(sg=<raster rot {rot} given as (x,y)>, p={p_env})", y, lam, p_env, nd)
            res_o = da.transpose("x", "time", "y").hdc.whit.whits(nodata=nd, sg=sgda, p=p_env)
            _cmp_acc(ctx, sub, res_o, exp.reshape(32, 32, n), ("y", "x", "time"), f"whits(sg=<raster rot {rot}>, p={p_env}) on a (x,time,y) cube", y, lam, p_env, nd)
            # float64 cubes reach the kernel without a cast: as they are (time last and contiguous), and as views whose
            # time axis is strided in memory
            da64 = da.astype("float64").assign_attrs(da.attrs)
            # ... stored time-first / time in the middle in memory (C order), so that the series of a pixel is strided
            stored = {
                "(y,x,time) contiguous": da64,
                "(time,y,x) in memory": xr.DataArray(np.ascontiguousarray(da64.transpose("time", "y", "x").values), dims=("time", "y", "x"), coords=da64.coords, attrs=da64.attrs),
                "(x,time,y) in memory": xr.DataArray(np.ascontiguousarray(da64.transpose("x", "time", "y").values), dims=("x", "time", "y"), coords=da64.coords, attrs=da64.attrs),
                "(y,x,time) view of a (time,y,x) buffer": xr.DataArray(np.ascontiguousarray(da64.transpose("time", "y", "x").values), dims=("time", "y", "x"), coords=da64.coords,
                                                                       attrs=da64.attrs).transpose("y", "x", "time"),
            }
            for sname, d64 in stored.items():
                r64 = d64.hdc.whit.whits(nodata=nd, sg=sgda, p=p_env)
                _cmp_acc(ctx, sub, r64, exp.reshape(32, 32, n), ("y", "x", "time"), f"whits(sg=<raster rot {rot}>, p={p_env}) on a float64 cube, {sname}", y, lam, p_env, nd)
            ctx.count(sub, evaluations=6 * N)
            # the kernel result itself against the reference (lambda per pixel; -inf -> passthrough)
            fin = np.isfinite(sg)
            check_fixed(variant, y[fin], valid[fin], float(nd), lam[fin], p_env, ctx, "accessor_sgrid_reference")
            passthru = exp[~fin]
            if not np.array_equal(passthru, y[~fin].astype("int16")):
                j = int(np.nonzero((passthru != y[~fin].astype("int16")).any(axis=1))[0][0])
                ctx.violation(sub, {"what": "sg=-inf", "y": y[~fin][j].tolist()},
                              {"kind": "lam0", "variant": variant, "y": y[~fin][j].tolist(), "nd": float(nd), "p": p_env},
                              "sg = -inf (lambda = 0) did not return the input unchanged")
            ctx.count(sub, evaluations=N, nontrivial=N if p_env is None and rot == 0 else 0)
        # all six dimension orders
        base = da.hdc.whit.whits(nodata=nd, s=10.0, p=p_env).transpose("y", "x", "time").values
        for order in itertools.permutations(("y", "x", "time")):
            r = da.transpose(*order).hdc.whit.whits(nodata=nd, s=10.0, p=p_env)
            ctx.count(sub, evaluations=N)
            if set(r.dims) != {"y", "x", "time"} or not np.array_equal(r.transpose("y", "x", "time").values, base):
                ctx.violation(sub, {"what": "dim order", "order": list(order), "p": p_env},
                              {"kind": "dimorder", "order": list(order), "p": p_env},
                              f"whits on dims {order} differs from the (y,x,time) result")
            if r.dtype != np.int16:
                ctx.violation(sub, {"what": "dtype", "order": list(order)}, {"kind": "dimorder", "order": list(order), "p": p_env},
                              f"whits returned dtype {r.dtype}, expected int16")
    # argument validation
    try:
        da.hdc.whit.whits(nodata=nd)
        ctx.violation(sub, {"what": "no s/sg"}, {"kind": "noargs"}, "whits without s or sg did not raise")
    except ValueError:
        pass
    ctx.sample(sub, {"cube": "all 1024 words of length 5 as 32x32 pixels", "sg_values": sgvals.tolist(), "orders": 6})


def _cmp_acc(ctx, sub, res, exp, dims, what, y, lam, p_env, nd):
    got = res.transpose(*dims).values
    if got.dtype != np.int16 or got.shape != exp.shape or not np.array_equal(got, exp):
        j = 0
        if got.shape == exp.shape:
            d = np.nonzero((got != exp).reshape(-1, exp.shape[-1]).any(axis=1))[0]
            j = int(d[0]) if len(d) else 0
        ctx.violation(sub, {"what": what, "y": y[j].tolist()},
                      {"kind": "acc", "what": what, "y": y[j].tolist()},
                      f"{what}: accessor result differs from the kernel called per pixel "
                      f"(pixel {y[j].tolist()}: {got.reshape(-1, exp.shape[-1])[j].tolist() if got.shape == exp.shape else got.shape} "
                      f"vs {exp.reshape(-1, exp.shape[-1])[j].tolist()}; dtype {got.dtype})")


def long_series(n):
    t = np.arange(n)
    y = np.round(2500 * np.sin(t / 6.0) + 1200 * np.cos(t / 1.7) + 3000).astype(np.float64)
    y[(t * 7) % 23 == 0] += 2500  # spikes
    y[(t * 5) % 31 == 0] -= 2000
    return y


def long_family(ctx):
    sub = "long_family"
    nd = -3000.0
    sizes = (50, 100, 400) if ctx.thorough() else (50, 100, 400)
    for n in sizes:
        t = np.arange(n)
        base = long_series(n)
        layouts = {
            "all": np.ones(n, bool),
            "every3": t % 3 == 0,
            "gap30": ~((t >= 10) & (t < 40)),
            "lead_trail": (t >= 8) & (t < n - 8),
            "sparse": (t % 7 == 0) | (t % 11 == 0),
        }
        for lname, valid in layouts.items():
            y = np.where(valid, base, nd)[None, :]
            v = valid[None, :]
            for lam in (1e-3, 1.0, 100.0, 10 ** 2.8, 1e4):
                for p_env in (None, 0.1, 0.9, 0.01, 0.99, 0.999):
                    variant = "ws2dgu" if p_env is None else "ws2dpgu"
                    check_fixed(variant, y, v, nd, lam, p_env, ctx, sub)
                    ctx.count(sub, nontrivial=int(lname != "all"))
    ctx.sample(sub, {"n": list(sizes), "layouts": ["all", "every3", "gap30", "lead_trail", "sparse"],
                     "lambdas": [1e-3, 1.0, 100.0, 1e4], "p": [None, 0.1, 0.9]})


def slow_family(ctx):
    """Series whose reweighting has not converged after 10 passes: the statement fixes the result as the curve
    reached by (at most) 10 passes from the zero curve, so one pass more or less is observable here."""
    from ..oracle import pls
    sub = "ten_pass_limit"
    nd = -3000.0
    t4 = np.arange(400)
    fam = {
        "walk400": np.round(np.cumsum(((t4 * 7919 + 13) % 601 - 300))).clip(-10000, 10000).astype(np.float64),
        "steps400": np.round(((t4 // 37) % 5) * 1800 + ((t4 * 13) % 29) * 25).astype(np.float64),
        "tri200": np.round(8000 * np.abs(((np.arange(200) / 97.0) % 2) - 1) + ((np.arange(200) * 31) % 17) * 40).astype(np.float64),
    }
    exhausted = 0
    for name, y in fam.items():
        for lam, p_env in ((10 ** 2.8, 0.0001), (1e4, 0.001), (1e4, 0.0001), (10 ** 2.8, 0.999), (10.0, 0.0001), (10 ** 2.8, 0.001)):
            Y = y[None, :]
            valid = np.ones_like(Y, bool)
            # how many passes does the reference need?  (reported: the clause is only exercised when > 10)
            z = np.zeros_like(Y)
            prev = None
            need = 0
            for k in range(40):
                wa = np.where(Y > z, p_env, 1 - p_env)
                if prev is not None and np.array_equal(wa, prev):
                    break
                z, _ = pls.batch_solve(Y, lam, wa, refine=0)
                prev = wa
                need = k + 1
            exhausted += int(need > 10)
            check_fixed("ws2dpgu", Y, valid, nd, lam, p_env, ctx, sub)
            ctx.count(sub, nontrivial=int(need > 10))
    ctx.note("ten_pass_limit_cases_not_converged_after_10", exhausted)
    ctx.sample(sub, {"series": list(fam), "lambda_p": [[10 ** 2.8, 0.0001], [1e4, 0.001], [10 ** 2.8, 0.999]], "not_converged_after_10_passes": exhausted})


def run(ctx):
    wc.compile_all()
    letters = wc.letters_for(ctx.seed)
    maxn = 8 if ctx.thorough() else 7
    tasks = []
    for n in range(maxn, 3, -1):
        for lam in LAMS:
            tasks.append((n, lam, None, letters))
            for p_env in PS:
                tasks.append((n, lam, p_env, letters))
    # an alphabet with the value 0 in it (a valid observation that happens to be zero is not a gap): words of length 4..6
    zletters = [0, 10, 900]
    for n in range(6, 3, -1):
        for lam in LAMS:
            tasks.append((n, lam, None, zletters))
            tasks.append((n, lam, PS[0], zletters))
    ctx.pmap(_kernel_task, tasks)
    ctx.note("letters", letters)
    ctx.note("letters_with_zero", zletters)
    ctx.note("lambdas", [repr(l) for l in LAMS])
    ctx.note("p_values", PS)
    ctx.note("max_len", maxn)
    lambda_zero(ctx, letters)
    accessor(ctx, letters)
    long_family(ctx)
    slow_family(ctx)
    from . import spell_common
    spell_common.run(ctx, "C03")



def replay(sub, case, p):
    if case.get("kind") == "spelling":
        from . import spell_common
        spell_common.run(p, "C03")
        return
    k = case["kind"]
    if k == "fixed":
        y = np.asarray([case["y"]], dtype=np.float64)
        valid = y != case["nd"]
        check_fixed(case["variant"], y, valid, case["nd"], case["lam"], case["p"], p, sub)
    elif k == "lam0":
        y = np.asarray([case["y"]], dtype=np.float64)
        out, _ = wc.call_variant(case["variant"], y, case["nd"], lam=0.0, p=case["p"])
        if not np.array_equal(out, y.astype("int16")):
            p.violation(sub, {}, case, "lambda=0 changed the input")
    else:
        class Dummy:  # re-run the accessor battery (deterministic)
            pass
        p.thorough = lambda: False
        accessor(p, wc.letters_for(0))

"""C20 — temporal interpolation averages the daily Whittaker curve per period.

Bounded exhaustive product: observations n = 2..4 (5), every combination of gaps 0..3 between marks, optional
unmarked head / tail days, every contiguous labeling of the resulting daily template (2^(L-1)) and every value
word over a small alphabet, through the tinterpolate gufunc and DataArray.hdc.whit.whitint.  Oracle: scatter,
reference solve of (W + 1e-5 D'D) z = W y with W = template (float64 + long-double refinement, cross-checked with
exact rationals), mean per label run, rounding with a tie guard band; inputs must be left unmodified.
"""
from __future__ import annotations

import importlib
import itertools
from fractions import Fraction as F

import numpy as np

from .. import sse
from ..oracle import pls

LEVEL = "exploration"
RULE = ("template (marks / gaps / head / tail) x contiguous labeling x value word; non-trivial = template with at least "
        "one unmarked day and a labeling with >= 2 periods; distinct = (template, labeling, values)")
ASSUMPTIONS = [
    "either integer neighbour is accepted where the exact period mean is within 1e-6 of a rounding tie",
    "contract: contiguous labels, daily template of length >= 4 with as many marks as observations",
]

LAM = 0.00001
BAND = 1e-6


def _ops():
    import hdc.algo  # noqa: F401
    return importlib.import_module("hdc.algo.ops")


def templates(max_obs, max_len):
    seen = set()
    for nobs in range(2, max_obs + 1):
        for gaps in itertools.product([0, 1, 2, 3], repeat=nobs - 1):
            for head, tail in ((0, 0), (1, 0), (0, 2), (2, 1), (0, 1)):
                t = [0] * head + [1]
                for g in gaps:
                    t += [0] * g + [1]
                t += [0] * tail
                if 4 <= len(t) <= max_len and tuple(t) not in seen:
                    seen.add(tuple(t))
                    yield tuple(t)


def run_lengths(labels):
    runs, start = [], 0
    for i in range(1, len(labels) + 1):
        if i == len(labels) or labels[i] != labels[start]:
            runs.append((start, i))
            start = i
    return runs


def reference(X, tmpl, labels):
    """X (N,nobs) values. Returns (means (N,nruns) float64, ok)."""
    tmpl = np.asarray(tmpl, dtype=np.float64)
    L = len(tmpl)
    N = X.shape[0]
    Y = np.zeros((N, L))
    Y[:, tmpl != 0] = X
    W = np.broadcast_to(tmpl, (N, L)).copy()
    z, _ = pls.batch_solve(Y, LAM, W)
    runs = run_lengths(list(labels))
    means = np.stack([z[:, a:b].mean(axis=1) for a, b in runs], axis=1)
    return means, z


def check_batch(X, tmpl, labels, p, sub, tmpl_dtype="float64"):
    o = _ops()
    tmpl_a = np.array(tmpl).astype(tmpl_dtype)        # private copies: the kernel must not modify them, and if it
    lab_a = np.array(labels, dtype=np.int32)          # does the reference still sees the pristine inputs
    tmpl = tuple(float(v) for v in np.asarray(tmpl).tolist())
    labels = tuple(int(v) for v in np.asarray(labels).tolist())
    nl = len(set(labels))
    t0, l0 = tmpl_a.copy(), lab_a.copy()
    x16 = X.astype("int16")
    extra = {} if tmpl_dtype == "float64" else {"template_dtype": tmpl_dtype}
    key = lambda j: {"x": X[j].tolist(), "template": list(map(int, tmpl)), "labels": list(map(int, labels)), **extra}
    case = lambda j: {"kind": "ti", "x": X[j].tolist(), "template": list(map(int, tmpl)), "labels": list(map(int, labels)), **extra}
    try:
        out = np.asarray(o.tinterpolate(x16, tmpl_a, lab_a, np.zeros(nl, "u1")))
    except Exception as e:
        p.violation(sub, key(0), case(0), f"tinterpolate raised {type(e).__name__}: {e}")
        return
    if not (np.array_equal(tmpl_a, t0) and np.array_equal(lab_a, l0)):
        p.violation(sub, dict(key(0), what="inputs modified"), case(0),
                    f"tinterpolate modified its template / labels argument: template {t0.tolist()[:12]} -> {tmpl_a.tolist()[:12]}")
    if out.shape != (X.shape[0], nl) or out.dtype != np.int16:
        p.violation(sub, dict(key(0), what="shape"), case(0), f"output shape {out.shape} dtype {out.dtype}, expected ({X.shape[0]}, {nl}) int16")
        return
    means, z = reference(X, tmpl, labels)
    inr = (np.abs(means) < 32766).all(axis=1)
    bad = (np.abs(out - means) > 0.5 + BAND).any(axis=1) & inr
    p.count(sub, evaluations=X.shape[0], excluded=int((~inr).sum()))
    for j in np.nonzero(bad)[0][:3]:
        p.violation(sub, key(j), case(j),
                    f"tinterpolate(x={X[j].tolist()}, template={list(map(int, tmpl))}, labels={list(map(int, labels))}) -> {out[j].tolist()}, "
                    f"reference period means {np.round(means[j], 4).tolist()}")
    return out, means


def _task(task, p):
    tmpls, alphabet = task
    sub = "enumeration"
    for tmpl in tmpls:
        nobs = sum(tmpl)
        L = len(tmpl)
        idx = sse.word_indices(len(alphabet), nobs)
        X = np.asarray(alphabet, dtype=np.int64)[idx]
        # plus lines in day number through the marks
        days = np.nonzero(np.asarray(tmpl))[0]
        lines = np.array([a + b * days for a, b in ((0, 1), (7, -3), (-100, 12), (5, 0))], dtype=np.int64)
        Xall = np.concatenate([X, lines])
        for cuts in itertools.product([0, 1], repeat=L - 1):
            run_id = np.cumsum([0] + list(cuts))
            labels = run_id + 100
            # the same runs with labels that are distinct but not increasing (a period-of-year index across the
            # new year, descending ids, a zig-zag): only "equal neighbours belong to one period" may matter
            if sum(cuts) >= 1:
                for alt in (100 - run_id, np.array([36, 1, 35, 2, 34, 3, 33, 4, 32, 5])[run_id % 10] + 50 * (run_id // 10)):
                    ra = check_batch(Xall, tmpl, alt, p, "label_spellings")
                    rb = check_batch(Xall, tmpl, labels, p, "label_spellings")
                    if ra is not None and rb is not None and not np.array_equal(ra[0], rb[0]):
                        j = int(np.nonzero((ra[0] != rb[0]).any(axis=1))[0][0])
                        p.violation("label_spellings", {"x": Xall[j].tolist(), "template": list(tmpl), "labels": alt.tolist()},
                                    {"kind": "ti", "x": Xall[j].tolist(), "template": list(tmpl), "labels": alt.tolist()},
                                    f"tinterpolate with labels {alt.tolist()} gives {ra[0][j].tolist()} but the same runs labelled {labels.tolist()} give {rb[0][j].tolist()}")
            r = check_batch(Xall, tmpl, labels, p, sub)
            if (0 in tmpl) and sum(cuts) >= 1:
                p.count(sub, nontrivial=Xall.shape[0])
            if r is None:
                continue
            out, means = r
            # lines: exact period means of the line (statement clause), constants: the constant
            nl = len(lines)
            runs = run_lengths(list(labels))
            for li, (a, b) in enumerate(((0, 1), (7, -3), (-100, 12), (5, 0))):
                exact = [F(sum(a + b * d for d in range(s, e)), e - s) for s, e in runs]
                got = out[len(X) + li]
                okl = all(abs(F(int(g)) - ex) <= F(1, 2) for g, ex in zip(got, exact))
                if not okl:
                    p.violation("lines", {"line": [a, b], "template": list(tmpl), "labels": labels.tolist()},
                                {"kind": "ti", "x": lines[li].tolist(), "template": list(tmpl), "labels": labels.tolist()},
                                f"series linear in day number ({a}+{b}*day) gave {got.tolist()}, exact period means {[float(v) for v in exact]}")
        # oracle cross-check against exact rationals for one labeling
        j = len(X) // 2
        y = [F(0)] * L
        for pos, v in zip(days, X[j]):
            y[pos] = F(int(v))
        ze = pls.frac_solve(y, F(LAM), [F(int(t)) for t in tmpl])
        _, zf = reference(X[j:j + 1], tmpl, np.zeros(L, int))
        d = max(abs(float(ze[i]) - zf[0, i]) for i in range(L))
        p.note_max("max_oracle_crosscheck_diff", d)
        p.count("oracle_crosscheck", evaluations=1)
        assert d < 1e-6, f"float reference differs from the exact rational curve by {d}"
    p.sample(sub, {"template": list(tmpls[0]), "labelings": 2 ** (len(tmpls[0]) - 1), "alphabet": list(alphabet)})


def accessor(ctx, alphabet):
    import pandas as pd
    import xarray as xr
    o = _ops()
    sub = "accessor"
    tmpl = (1, 0, 0, 1, 0, 1, 1, 0)
    labels = np.array([5, 5, 5, 6, 6, 6, 7, 7], dtype=np.int32)
    nobs = sum(tmpl)
    idx = sse.word_indices(len(alphabet), nobs)
    X = np.asarray(alphabet, dtype=np.int64)[idx].astype("int16")
    N = X.shape[0]
    pad = (-N) % 8
    Xp = np.concatenate([X, X[:pad]]) if pad else X
    time = pd.date_range("2000-01-01", periods=nobs, freq="3D")
    exp = np.asarray(o.tinterpolate(Xp, np.asarray(tmpl, dtype=np.float64), labels, np.zeros(3, "u1")))
    for order in (("y", "x", "time"), ("time", "y", "x")):
        for backend in ("numpy", "dask"):
            da = xr.DataArray(Xp.reshape(-1, 8, nobs), dims=("y", "x", "time"), coords={"time": time}).transpose(*order)
            if backend == "dask":
                da = da.chunk({"y": 5, "x": 3, "time": -1})
            res = da.hdc.whit.whitint(labels, np.asarray(tmpl, dtype=np.float64))
            ctx.count(sub, evaluations=N, nontrivial=N)
            if "newtime" not in res.dims or res.sizes["newtime"] != 3 or res.dtype != np.int16:
                ctx.violation(sub, {"order": list(order), "backend": backend, "what": "shape"}, {"kind": "acc"},
                              f"whitint result dims {res.dims} sizes {dict(res.sizes)} dtype {res.dtype}")
                continue
            got = np.asarray(res.transpose("y", "x", "newtime").values).reshape(-1, 3)
            if not np.array_equal(got, exp):
                j = int(np.nonzero((got != exp).any(axis=1))[0][0])
                ctx.violation(sub, {"order": list(order), "backend": backend, "x": Xp[j].tolist()}, {"kind": "acc"},
                              f"whitint [{order},{backend}] pixel {Xp[j].tolist()} -> {got[j].tolist()}, kernel gives {exp[j].tolist()}")
    # several labelings (and several templates) of ONE lazy cube evaluated in one graph: each result is its own
    import dask
    lazy = xr.DataArray(Xp.reshape(-1, 8, nobs), dims=("y", "x", "time"), coords={"time": time}).chunk({"y": 5, "x": 3, "time": -1})
    tf = np.asarray(tmpl, dtype=np.float64)
    requests = [(labels, tf), (np.array([1, 1, 2, 2, 3, 3, 4, 4], dtype=np.int32), tf), (np.array([9, 9, 9, 9, 9, 9, 9, 9], dtype=np.int32), tf),
                (np.array([5, 5, 5, 5, 6, 6, 6, 6], dtype=np.int32), tf), (labels, np.array([1, 0, 1, 0, 0, 1, 0, 1], dtype=np.float64))]
    results = dask.compute(*[lazy.hdc.whit.whitint(l, t) for l, t in requests])
    for k, ((l, t), r) in enumerate(zip(requests, results)):
        nl = len(set(l.tolist()))
        e = np.asarray(o.tinterpolate(Xp, t.copy(), l.copy(), np.zeros(nl, "u1")))
        g = np.asarray(r.transpose("y", "x", "newtime").values).reshape(-1, r.sizes["newtime"])
        ctx.count(sub, evaluations=N, nontrivial=N)
        if g.shape != e.shape or not np.array_equal(g, e):
            ctx.violation(sub, {"what": "joint graph", "request": k, "labels": l.tolist(), "template": t.tolist()}, {"kind": "acc"},
                          f"whitint(labels={l.tolist()}, template={t.astype(int).tolist()}) computed together with {len(requests) - 1} other requests on the same lazy cube "
                          f"(dask.compute) has shape {g.shape} / values different from the kernel's result of shape {e.shape}")
    # non-int16 input must be refused
    try:
        xr.DataArray(Xp.reshape(-1, 8, nobs).astype("float32"), dims=("y", "x", "time"), coords={"time": time}).hdc.whit.whitint(labels, np.asarray(tmpl, float))
        ctx.violation(sub, {"what": "float input accepted"}, {"kind": "acc"}, "whitint accepted a float32 cube (documented: int16 only)")
    except NotImplementedError:
        pass
    ctx.sample(sub, {"template": list(tmpl), "labels": labels.tolist(), "pixels": N})


def _long_task(task, p):
    nobs, spacing = task
    sub = "long_family"
    L = (nobs - 1) * spacing + 1
    tmpl = np.zeros(L)
    tmpl[::spacing] = 1
    t = np.arange(nobs)
    x = np.round(4000 + 3000 * np.sin(t * spacing / 365 * 2 * np.pi) + 600 * np.sin(t / 2.3)).astype(np.int64)
    for period, name in ((10, "dekad-like"), (5, "pentad-like"), (30, "month-like")):
        labels = (np.arange(L) // period).astype(np.int32)
        check_batch(np.stack([x, np.full(nobs, 1234), 10 * t - 500]), tmpl, labels, p, sub)
        p.count(sub, nontrivial=3)
    p.sample(sub, {"observations": nobs, "spacing": spacing, "labelings": ["10-day", "5-day", "30-day"]})


TEMPLATE_DTYPES = ("bool", "uint8", "int8", "int16", "int32", "int64", "float32", "float64")


def _storage_task(task, p):
    """How the 0/1 daily template is stored (a mask from np.isin is bool, a counter array is uint8, ...) must not
    matter: sparse irregular marks (16-day composites with one or two composites missing: gaps of 32 and 48 days)
    on records of one and two years, and a few short templates, for every storage dtype."""
    kind = task
    sub = "template_storage"
    if kind == "long":
        for ncomp in (23, 46):
            days = [16 * i for i in range(ncomp) if i % 7 not in (3,) and i % 11 not in (5, 6)]
            L = days[-1] + 1
            tmpl = np.zeros(L)
            tmpl[days] = 1
            t = np.array(days)
            x = np.round(4000 + 3000 * np.sin(t / 365 * 2 * np.pi) + 600 * np.sin(t / 37.0)).astype(np.int64)
            X = np.stack([x, np.full(len(days), 5000), 10 * t - 500, (t * 7919) % 9000])
            labels = (np.arange(L) // 10).astype(np.int32)
            for dt in TEMPLATE_DTYPES:
                check_batch(X, tmpl, labels, p, sub, tmpl_dtype=dt)
                p.count(sub, nontrivial=X.shape[0])
    else:
        for tmpl in ((1, 0, 0, 1), (1, 0, 1, 0, 0, 1), (0, 1, 0, 0, 0, 1, 0, 1), (1, 0, 0, 0, 0, 0, 0, 0, 0, 1, 1)):
            nobs = sum(tmpl)
            idx = sse.word_indices(3, nobs)
            X = np.asarray((-5, 7, 10000), dtype=np.int64)[idx]
            L = len(tmpl)
            for labels in (np.arange(L) // 2, np.arange(L) // 3, np.zeros(L, int)):
                for dt in TEMPLATE_DTYPES:
                    check_batch(X, tmpl, labels.astype(np.int32), p, sub, tmpl_dtype=dt)
                    p.count(sub, nontrivial=X.shape[0])
    p.sample(sub, {"dtypes": list(TEMPLATE_DTYPES), "family": kind})


def _tail_task(task, p):
    """Daily axes that do not end (or begin) on a marked day: unmarked tails and heads of 0..20 days after / before
    regular marks (the fitted curve continues as a straight line there; its last pivots are tiny with lambda 1e-5)."""
    spacing = task
    sub = "unmarked_tails"
    nobs = 12
    t = np.arange(nobs)
    for head in (0, 3, 9):
        for tail in range(0, 21):
            L = head + (nobs - 1) * spacing + 1 + tail
            tmpl = np.zeros(L)
            tmpl[head:head + (nobs - 1) * spacing + 1:spacing] = 1
            x = np.round(4000 + 3000 * np.sin(t * spacing / 365 * 2 * np.pi) + 600 * np.sin(t / 2.3)).astype(np.int64)
            labels = (np.arange(L) // 10).astype(np.int32)
            check_batch(np.stack([x, np.full(nobs, 10000), np.full(nobs, 7), 10 * t - 500]), tmpl, labels, p, sub)
            p.count(sub, nontrivial=4)
    p.sample(sub, {"spacing": spacing, "observations": nobs, "heads": [0, 3, 9], "tails": "0..20 unmarked days"})


def long_family(ctx):
    nobs_list = (100, 400) if ctx.thorough() else (100,)
    ctx.pmap(_long_task, [(n, s) for n in nobs_list for s in (16, 10, 8, 5)])
    ctx.pmap(_tail_task, [16, 10, 8, 5])


def run(ctx):
    o = _ops()
    o.tinterpolate(np.array([[1, 2]], "int16"), np.array([1.0, 0, 0, 1]), np.array([0, 0, 1, 1], "int32"), np.zeros(2, "u1"))
    if ctx.thorough():
        max_obs, max_len = 5, 10
        alphabet = (-5, 0, 7, 10000)
    else:
        max_obs, max_len = 4, 8
        alphabet = (-5, 7, 10000) if ctx.seed == 0 else tuple(sorted(sse.seeded_rng(ctx.seed, "c20").sample(range(-10000, 10001), 3)))
    tl = sorted(templates(max_obs, max_len), key=lambda t: -len(t))
    tasks = [(chunk, alphabet) for chunk in sse.chunked(tl, 2)]
    ctx.pmap(_task, tasks)
    ctx.note("templates", len(tl))
    ctx.note("alphabet", list(alphabet))
    accessor(ctx, alphabet)
    long_family(ctx)
    ctx.pmap(_storage_task, ["long", "short"])
    from . import spell_common
    spell_common.run(ctx, "C20")



def replay(sub, case, p):
    if case.get("kind") == "spelling":
        from . import spell_common
        spell_common.run(p, "C20")
        return
    if case["kind"] == "ti":
        check_batch(np.asarray([case["x"]], dtype=np.int64), tuple(case["template"]), np.asarray(case["labels"]), p, sub, tmpl_dtype=case.get("template_dtype", "float64"))
    else:
        accessor(p, (-5, 7, 10000))

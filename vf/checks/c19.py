"""C19 — iterative aggregation yields exactly the complete trailing windows.

Model checking of the real generator against a reference window list: for every axis length, window size,
begin / end label (on the axis, between labels, before the first, after the last), lookup method, reducer
and dimension kind, the generator is advanced with next() - every next() is a transition - and compared
with the next element of the list computed from the statement.
"""
from __future__ import annotations

import itertools

import warnings

import numpy as np

LEVEL = "model_checking"
RULE = ("axis length L x n x begin x end x method x func x dim kind (complete product inside the bound); states = "
        "configurations, transitions = next() calls compared with the reference list; non-trivial = configuration "
        "with a begin or end restriction or an off-axis label")
ASSUMPTIONS = [
    "an off-axis label with a lookup method resolves as pandas' Index.get_indexer(method=...) does; a label that "
    "resolves to no position must raise ValueError",
    "n is a positive integer (n = None means the whole axis)",
]


def ref_pos(labels, v, method):
    """Position of label v on the sorted axis under the lookup method, or None."""
    labels = list(labels)
    if v in labels:
        return labels.index(v)
    if method is None:
        return None
    if method == "ffill":
        c = [i for i, l in enumerate(labels) if l <= v]
        return c[-1] if c else None
    if method == "bfill":
        c = [i for i, l in enumerate(labels) if l >= v]
        return c[0] if c else None
    if method == "nearest":
        # pandas: nearest, ties resolved towards the larger index position? use distances; ties -> left... decided below
        d = [abs(l - v) for l in labels]
        m = min(d)
        c = [i for i, x in enumerate(d) if x == m]
        return c  # candidates (tie tolerated)
    raise ValueError(method)


def ref_windows(L, n, bpos, epos):
    """Windows [e-n+1, e] for e from bpos down to epos with e-n+1 >= 0, newest first."""
    if n is None:
        n = L
    out = []
    for e in range(bpos, epos - 1, -1):
        s = e - n + 1
        if s >= 0:
            out.append((s, e))
    return out


def make_da(L, kind, with_nan):
    import pandas as pd
    import xarray as xr
    import hdc.algo  # noqa: F401  (registers the accessors)
    rng_vals = (np.arange(L * 2 * 3).reshape(L, 2, 3) * 1.5 - 4.0)
    if isinstance(with_nan, (tuple, list)):
        # NaN cells at the given positions of the aggregated axis only (one pixel, and the whole slice of another)
        rng_vals = rng_vals.copy()
        for t0 in with_nan:
            rng_vals[t0, 0, 1] = np.nan
            rng_vals[t0, 1, :2] = np.nan
    elif with_nan:
        rng_vals = rng_vals.copy()
        rng_vals[::2, 0, 1] = np.nan
        if L > 1:
            rng_vals[1, 1, 2] = np.nan
    if kind == "time":
        labels = pd.date_range("2000-01-01", periods=L, freq="10D")
        da = xr.DataArray(rng_vals, dims=("time", "y", "x"), coords={"time": labels})
        lab = list(labels)
        half = pd.Timedelta(days=5)
        before, after = labels[0] - pd.Timedelta(days=3), labels[-1] + pd.Timedelta(days=3)
        mids = [l + half for l in labels[:-1]] if L > 1 else []
        near = [l + pd.Timedelta(days=2) for l in labels]  # closer to l than to l+1
    else:
        labels = [10 * i + 3 for i in range(L)]
        da = xr.DataArray(rng_vals.transpose(1, 0, 2), dims=("y", "step", "x"), coords={"step": labels})
        lab = labels
        before, after = labels[0] - 3, labels[-1] + 3
        mids = [l + 5 for l in labels[:-1]]
        # fractional labels on an integer axis (a cast to the index dtype would silently land them on a step)
        near = [l + 2 for l in labels] + [labels[0] + 0.5, labels[-1] - 0.5, labels[L // 2] + 0.3, labels[0] - 0.5]
    return da, lab, before, after, mids, near


def expected_values(da, dim, s, e, func):
    sl = da.isel({dim: slice(s, e + 1)})
    if func == "full":
        return sl
    with np.errstate(all="ignore"):
        import warnings
        with warnings.catch_warnings():
            warnings.simplefilter("ignore")
            arr = np.nansum(sl.values, axis=sl.dims.index(dim)) if func == "sum" else np.nanmean(sl.values, axis=sl.dims.index(dim))
    return arr


def check_config(p, L, kind, with_nan, n, begin, end, method, func, cache):
    import warnings
    ck = (L, kind, with_nan)
    if ck not in cache:
        cache[ck] = make_da(L, kind, with_nan)
    da, lab, before, after, mids, near = cache[ck]
    dim = "time" if kind == "time" else "step"
    sub = "iteragg"
    key = {"L": L, "dim": kind, "n": n, "begin": str(begin), "end": str(end), "method": method, "func": func, "nan": with_nan}
    case = dict(key, kind="cfg", begin_i=None, end_i=None)
    # reference positions
    expect_error = False
    bpos = L - 1
    epos_list = [0]
    if begin is not None:
        r = ref_pos(lab, begin, method)
        if r is None:
            expect_error = True
        else:
            bpos = r
    bcands = bpos if isinstance(bpos, list) else [bpos]
    if end is not None:
        r = ref_pos(lab, end, method)
        if r is None:
            expect_error = True
        else:
            epos_list = r if isinstance(r, list) else [r]
    gen = getattr(da.hdc.iteragg, func)(n=n, dim=dim, begin=begin, end=end, method=method)
    got = []
    err = None
    with warnings.catch_warnings():
        warnings.simplefilter("ignore")
        try:
            for k, item in enumerate(gen):
                got.append(item)
                if k > L + 2:
                    break
        except ValueError as e:
            err = e
        except Exception as e:  # any other exception type is not what the statement promises
            err = e
            p.violation(sub, key, case, f"iteragg.{func}({_fmt(key)}) raised {type(e).__name__}: {e}")
            return 0
    if expect_error:
        if err is None:
            p.violation(sub, key, case,
                        f"iteragg.{func}({_fmt(key)}): a label that cannot be located on the axis {_labs(lab)} must raise ValueError, "
                        f"but the generator yielded {len(got)} item(s)")
        return len(got)
    if err is not None:
        p.violation(sub, key, case, f"iteragg.{func}({_fmt(key)}) raised ValueError({err}) although begin/end are locatable on {_labs(lab)}")
        return 0
    # admissible window lists (nearest ties give several)
    ok = False
    detail = ""
    for bp in bcands:
        for ep in epos_list:
            wins = ref_windows(L, n, bp, ep)
            d = compare(da, dim, kind, lab, wins, got, func, n if n is not None else L)
            if d is None:
                ok = True
                break
            detail = d
        if ok:
            break
    if not ok:
        p.violation(sub, key, case, f"iteragg.{func}({_fmt(key)}) on axis {_labs(lab)}: {detail}")
    return len(got)


def compare(da, dim, kind, lab, wins, got, func, n):
    if len(got) != len(wins):
        return f"yielded {len(got)} windows, expected {len(wins)} (windows as (first,last) positions: {wins})"
    for k, ((s, e), item) in enumerate(zip(wins, got)):
        a = item.attrs
        if str(a.get("agg_start")) != str(lab[s]) or str(a.get("agg_stop")) != str(lab[e]) or a.get("agg_n") != n:
            return (f"window {k}: attrs agg_start/stop/n = {a.get('agg_start')}/{a.get('agg_stop')}/{a.get('agg_n')}, "
                    f"expected {lab[s]}/{lab[e]}/{n}")
        exp = expected_values(da, dim, s, e, func)
        if func == "full":
            if not item.identical(exp.assign_attrs(item.attrs)) and not np.array_equal(item.values, exp.values, equal_nan=True):
                return f"window {k}: slice differs"
            if list(item[dim].values) != list(exp[dim].values):
                return f"window {k}: slice coordinates differ"
        else:
            vals = item.values
            if kind == "time":
                if item.dims[0] != "time" or item.sizes["time"] != 1:
                    return f"window {k}: result not stamped with a single time step (dims {item.dims})"
                if item["time"].values[0] != np.datetime64(lab[e]):
                    return f"window {k}: stamped {item['time'].values[0]}, expected last step {lab[e]}"
                vals = vals[0]
            if vals.shape != exp.shape or not np.allclose(vals, exp, rtol=0, atol=1e-12, equal_nan=True):
                return f"window {k} (positions {s}..{e}): values differ from the NaN-skipping {func}"
    return None


def _fmt(key):
    return f"n={key['n']}, dim={key['dim']}, begin={key['begin']}, end={key['end']}, method={key['method']}"


def _labs(lab):
    return [str(l)[:10] for l in lab]


def _task(task, p):
    L, kind, thorough = task
    cache = {}
    da, lab, before, after, mids, near = make_da(L, kind, False)
    cands = [None] + list(lab) + mids + [before, after] + (near[:2] if L > 1 else near[:1]) + (near[L:] if kind != "time" else [])
    on_axis = set(map(str, lab)) | {"None"}
    ns = [None] + list(range(1, L + 2))
    nstates = ntrans = nontriv = 0
    funcs_all = ("sum", "mean", "full")
    for n in ns:
        for begin in cands:
            for end in cands:
                for method in (None, "nearest", "ffill", "bfill"):
                    off = str(begin) not in on_axis or str(end) not in on_axis
                    if method is not None and not off and not thorough:
                        # a lookup method cannot change the position of an on-axis label; covered once with ffill
                        if method != "ffill":
                            continue
                    for fi, func in enumerate(funcs_all):
                        # reducers only differ in the values they compute: vary them over one begin/end family
                        if not thorough and func != "sum" and not (begin is None or end is None):
                            continue
                        for with_nan in ((False, True) if func != "full" and begin is None and end is None else (False,)):
                            k = check_config(p, L, kind, with_nan, n, begin, end, method, func, cache)
                            nstates += 1
                            ntrans += k + 1
                            if begin is not None or end is not None:
                                nontriv += 1
    p.count("iteragg", evaluations=nstates, states=nstates, transitions=ntrans, traces_validated_against_impl=nstates, nontrivial=nontriv)
    if L == 4:
        p.sample("iteragg", {"axis": _labs(lab), "dim": kind, "n": 2, "begin": str(lab[2])[:10], "end": str(lab[1])[:10],
                             "expected_windows": ref_windows(4, 2, 2, 1)})


def _nan_task(task, p):
    """Where the missing cells sit relative to begin / end: every placement of one or two NaN positions on an axis of
    6 steps x every on-axis begin / end (and the defaults) x n x sum / mean, on the time and on a numeric dimension."""
    import itertools
    L, kind = task
    cache = {}
    da, lab, *_ = make_da(L, kind, False)
    cands = [None] + list(lab)
    placements = [(t,) for t in range(L)] + list(itertools.combinations(range(L), 2))
    k = 0
    for nanpos in placements:
        for n in (1, 2, 3, L):
            for begin in cands:
                for end in cands:
                    for func in ("sum", "mean"):
                        check_config(p, L, kind, tuple(nanpos), n, begin, end, None, func, cache)
                        k += 1
    p.count("iteragg", evaluations=k, states=k, transitions=k, traces_validated_against_impl=k, nontrivial=k)
    p.note_add("nan_placements", len(placements))


def dim_sequences(ctx):
    """History on ONE object: every sequence of up to three steps over {aggregate along time, aggregate along level
    (sum / mean, with and without begin), relabel the time axis in place}; every aggregation must yield exactly what
    the same call yields on a freshly built object with the current labels (the accessor object lives as long as
    the DataArray it sits on)."""
    import itertools
    import pandas as pd
    import xarray as xr
    sub = "dim_sequences"
    vals = (np.arange(5 * 4 * 2).reshape(5, 4, 2) * 1.5 - 7.0)
    vals[1, 2, 0] = np.nan
    vals[3, 0, 1] = np.nan

    def build(shift):
        time = pd.date_range("2000-01-01", periods=5, freq="10D") + pd.Timedelta(days=shift)
        return xr.DataArray(vals.copy(), dims=("time", "level", "x"), coords={"time": time, "level": [10, 20, 30, 40]})

    calls = {
        "sum along time": lambda d: list(d.hdc.iteragg.sum(n=2, dim="time")),
        "mean along level": lambda d: list(d.hdc.iteragg.mean(n=2, dim="level")),
        "sum along level from 30": lambda d: list(d.hdc.iteragg.sum(n=2, dim="level", begin=30)),
        "mean along time from the 3rd step": lambda d: list(d.hdc.iteragg.mean(n=3, dim="time", begin=d.time.values[2])),
        "full along level": lambda d: list(d.hdc.iteragg.full(n=3, dim="level")),
    }
    actions = list(calls) + ["relabel time"]

    def run_call(name, d):
        try:
            return ("ok", calls[name](d))
        except Exception as e:  # noqa: BLE001
            return ("raise", type(e).__name__)

    nseq = 0
    for k in (1, 2, 3):
        for seq in itertools.product(actions, repeat=k):
            if seq[-1] == "relabel time":
                continue
            obj, shift = build(0), 0
            nseq += 1
            for step, a in enumerate(seq):
                if a == "relabel time":
                    shift += 1
                    obj["time"] = obj.time.values + np.timedelta64(1, "D")
                    continue
                got, exp = run_call(a, obj), run_call(a, build(shift))
                ok = got[0] == exp[0] and (got[1] == exp[1] if got[0] == "raise" else
                                           (len(got[1]) == len(exp[1]) and all(g.identical(e) for g, e in zip(got[1], exp[1]))))
                ctx.count(sub, evaluations=1, states=1, transitions=1, traces_validated_against_impl=1, nontrivial=int(step > 0))
                if not ok:
                    ctx.violation(sub, {"history": list(seq[:step + 1])}, {"kind": "dimseq"},
                                  f"on one object, after the history {list(seq[:step])} the call '{a}' "
                                  f"{'raises ' + got[1] if got[0] == 'raise' else 'yields ' + str(len(got[1])) + ' windows'} that differ from the same call on a fresh "
                                  f"object ({'raises ' + exp[1] if exp[0] == 'raise' else str(len(exp[1])) + ' windows'}; values, coordinates or agg_* attributes)")
                    break
    ctx.note("dim_sequences", nseq)
    ctx.sample(sub, {"actions": actions, "depth": 3, "cube": "(time 5, level 4, x 2) float with NaN"})


def dtypes(ctx):
    """Cubes of narrow integer and boolean dtypes: the sums are the arithmetic sums of the windows (no wrap in the
    cube's own dtype), the means their means, for every n / begin / end on a short axis."""
    import pandas as pd
    import xarray as xr
    import hdc.algo  # noqa: F401
    sub = "cube_dtypes"
    L = 6
    time = pd.date_range("2000-01-01", periods=L, freq="10D")
    base = (np.arange(L * 2 * 2).reshape(L, 2, 2) * 1237) % 9000 + 600
    cubes = {
        "int16": base.astype("int16") * 3,                # window sums beyond 32767
        "int32": (base * 200000).astype("int32"),          # window sums beyond 2**31
        "uint8": (base % 200 + 50).astype("uint8"),
        "bool": (base % 3 == 0),
        "float32": (base * 1.5).astype("float32"),
    }
    # narrow float cubes WITH missing cells: the reducers skip NaN whatever the float width
    for fdt in ("float32", "float16", "float64"):
        a = (base % 97 * 0.5).astype(fdt)
        a[1, 0, 1] = np.nan
        a[4, 1, 0] = np.nan
        a[2, 1, 1] = np.nan
        cubes[fdt + " with NaN"] = a
    for dt, arr in cubes.items():
        da = xr.DataArray(arr, dims=("time", "y", "x"), coords={"time": time})
        exact = arr.astype(np.float64)
        for n in range(1, L + 1):
            for bpos in (None, L - 1, 3):
                for epos in (None, 0, 2):
                    kw = {}
                    if bpos is not None:
                        kw["begin"] = time[bpos]
                    if epos is not None:
                        kw["end"] = time[epos]
                    wins = ref_windows(L, n, L - 1 if bpos is None else bpos, 0 if epos is None else epos)
                    for func in ("sum", "mean"):
                        got = list(getattr(da.hdc.iteragg, func)(n=n, **kw))
                        ctx.count(sub, evaluations=1, states=1, transitions=len(got) + 1, traces_validated_against_impl=1, nontrivial=1)
                        ok = len(got) == len(wins)
                        msg = f"{len(got)} windows, expected {len(wins)}"
                        if ok:
                            for (s0, e0), item in zip(wins, got):
                                blk = exact[s0:e0 + 1]
                                with np.errstate(all="ignore"), warnings.catch_warnings():
                                    warnings.simplefilter("ignore")
                                    exp = np.nansum(blk, axis=0) if func == "sum" else np.nanmean(blk, axis=0)
                                v = np.asarray(item.values, dtype=np.float64)[0]
                                if not np.allclose(v, exp, rtol=2e-3 if "float16" in dt else 1e-6, atol=0, equal_nan=True):
                                    ok = False
                                    msg = f"window {s0}..{e0}: {func} {v.ravel().tolist()} instead of {exp.ravel().tolist()}"
                                    break
                        if not ok:
                            ctx.violation(sub, {"dtype": dt, "n": n, "begin": bpos, "end": epos, "func": func}, {"kind": "dtypes"},
                                          f"iteragg.{func}(n={n}, begin={bpos}, end={epos}) on a {dt} cube: {msg}")
    ctx.sample(sub, {"dtypes": list(cubes), "axis_length": L})


def misc(ctx):
    """Argument validation outside the product."""
    da, lab, *_ = make_da(4, "time", False)
    sub = "misc"
    try:
        list(da.hdc.iteragg.sum(n=2, dim="nope"))
        ctx.violation(sub, {"what": "missing dim"}, {"kind": "misc"}, "iteragg on a non-existing dimension did not raise ValueError")
    except ValueError:
        pass
    # string begin/end for a time axis (the documented way of calling it)
    got = list(da.hdc.iteragg.sum(n=2, begin="2000-01-21", end="2000-01-11"))
    wins = ref_windows(4, 2, 2, 1)
    d = compare(da, "time", "time", lab, wins, got, "sum", 2)
    ctx.count(sub, evaluations=2, nontrivial=2)
    if d:
        ctx.violation(sub, {"what": "string labels"}, {"kind": "misc"}, f"iteragg.sum(n=2, begin='2000-01-21', end='2000-01-11'): {d}")


def run(ctx):
    maxL = 12 if ctx.thorough() else 8
    tasks = [(L, kind, ctx.thorough()) for L in range(maxL, 0, -1) for kind in ("time", "numeric")]
    ctx.pmap(_task, tasks)
    ctx.note("max_axis_length", maxL)
    ctx.pmap(_nan_task, [(6, "time"), (6, "numeric"), (4, "time"), (4, "numeric")])
    misc(ctx)
    dtypes(ctx)
    dim_sequences(ctx)
    from . import spell_common
    spell_common.run(ctx, "C19")



def replay(sub, case, p):
    if case.get("kind") == "spelling":
        from . import spell_common
        spell_common.run(p, "C19")
        return
    if case.get("kind") == "cfg":
        L, kind = case["L"], case["dim"]
        da, lab, before, after, mids, near = make_da(L, kind, False)
        cands = {str(c): c for c in [None] + list(lab) + mids + [before, after] + near}
        check_config(p, L, kind, tuple(case["nan"]) if isinstance(case["nan"], list) else case["nan"], case["n"], cands[case["begin"]], cands[case["end"]], case["method"], case["func"], {})
    elif case.get("kind") == "dtypes":
        dtypes(p)
    elif case.get("kind") == "dimseq":
        dim_sequences(p)
    else:
        misc(p)

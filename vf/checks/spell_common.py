"""Argument-spelling families of the accessor operations, grouped by the property whose statement they belong to
(see vf/spellings.py).  Every family is a small complete product: canonical call x every listed spelling."""
from __future__ import annotations

import datetime as _dt

import numpy as np

from .. import spellings

SUB = "argument_spellings"


def _cube(dtype="int16", T=12):
    import pandas as pd
    import xarray as xr
    import hdc.algo  # noqa: F401
    Y, X = 2, 3
    t = np.arange(T)
    v = np.empty((Y, X, T), dtype=np.int64)
    for y in range(Y):
        for x in range(X):
            v[y, x] = 40 + 30 * np.sin(t / 2.0 + y) + 11 * x + (t * 7 + y * 3 + x) % 9
    v[0, 1, 3] = -9999
    v[1, 2, 5:7] = -9999
    v[1, 0, 4] = 0
    time = pd.date_range("2000-01-01", periods=T, freq="10D")
    return xr.DataArray(v.astype(dtype), dims=("y", "x", "time"), coords={"time": time, "y": [0.5, 1.5], "x": [10.0, 11.0, 12.0]}, attrs={"nodata": -9999}, name="band")


def c03(p):
    import xarray as xr
    da = _cube()
    sg = xr.DataArray(np.array([[-1.0, 0.5, 1.0], [2.0, 0.0, -0.5]]), dims=("y", "x"), coords={"y": da.y, "x": da.x})
    W = da.hdc.whit
    spellings.explore(p, SUB, "whits(nodata=-9999, s=10.0)", lambda: W.whits(nodata=-9999, s=10.0), {
        "s=10 (int)": lambda: W.whits(nodata=-9999, s=10),
        "s=np.float64(10)": lambda: W.whits(nodata=-9999, s=np.float64(10)),
        "s=np.float32(10)": lambda: W.whits(nodata=-9999, s=np.float32(10)),
        "s=np.int64(10)": lambda: W.whits(nodata=-9999, s=np.int64(10)),
        "nodata=-9999.0": lambda: W.whits(nodata=-9999.0, s=10.0),
        "nodata=np.int16(-9999)": lambda: W.whits(nodata=np.int16(-9999), s=10.0),
        "nodata=np.float32(-9999)": lambda: W.whits(nodata=np.float32(-9999), s=10.0),
        "positional nodata": lambda: W.whits(-9999, None, 10.0),
    })
    spellings.explore(p, SUB, "whits(nodata=-9999, sg=raster, p=0.9)", lambda: W.whits(nodata=-9999, sg=sg, p=0.9), {
        "sg float32": lambda: W.whits(nodata=-9999, sg=sg.astype("float32"), p=0.9),
        "sg without coordinates": lambda: W.whits(nodata=-9999, sg=xr.DataArray(sg.values, dims=("y", "x")), p=0.9),
        "sg transposed (x, y)": lambda: W.whits(nodata=-9999, sg=sg.transpose("x", "y"), p=0.9),
        "p=np.float64(0.9)": lambda: W.whits(nodata=-9999, sg=sg, p=np.float64(0.9)),
        "s given as well (sg wins)": lambda: W.whits(nodata=-9999, sg=sg, s=None, p=0.9),
    })
    c03_stale(p)


def _zero_marked(da):
    """The cube with its gaps written as 0 and WITHOUT a nodata attribute (where / astype keep attributes)."""
    d = da.where(da != -9999, 0).astype("int16")
    d.attrs = {}
    return d


def c03_stale(p):
    da0 = _zero_marked(_cube())
    for kw in ({"s": 10.0}, {"s": 10.0, "p": 0.9}):
        spellings.explore(p, SUB, f"whits(nodata=0, {kw}) on an object without nodata attribute", lambda: da0.copy().hdc.whit.whits(nodata=0, **kw), {
            "the object carries attrs nodata=-9999": lambda: da0.assign_attrs(nodata=-9999).hdc.whit.whits(nodata=0, **kw),
            "the object carries attrs nodata=7": lambda: da0.assign_attrs(nodata=7).hdc.whit.whits(nodata=0, **kw),
            "nodata=0.0": lambda: da0.copy().hdc.whit.whits(nodata=0.0, **kw),
            "nodata=np.int16(0)": lambda: da0.copy().hdc.whit.whits(nodata=np.int16(0), **kw),
            "nodata=False-like np.float32(0)": lambda: da0.copy().hdc.whit.whits(nodata=np.float32(0), **kw),
        })


def c04_stale(p):
    da0 = _zero_marked(_cube())
    sr = np.arange(-2.0, 2.5, 0.5)
    for kw in ({"srange": sr}, {"srange": sr, "p": 0.9}):
        spellings.explore(p, SUB, f"whitsvc(nodata=0, srange{', p=0.9' if 'p' in kw else ''}) on an object without nodata attribute",
                          lambda: da0.copy().hdc.whit.whitsvc(nodata=0, **kw), {
                              "the object carries attrs nodata=-9999": lambda: da0.assign_attrs(nodata=-9999).hdc.whit.whitsvc(nodata=0, **kw),
                              "the object carries attrs nodata=7": lambda: da0.assign_attrs(nodata=7).hdc.whit.whitsvc(nodata=0, **kw),
                              "nodata=0.0": lambda: da0.copy().hdc.whit.whitsvc(nodata=0.0, **kw),
                              "nodata=np.int16(0)": lambda: da0.copy().hdc.whit.whitsvc(nodata=np.int16(0), **kw),
                          })


def c04(p):
    da = _cube()
    W = da.hdc.whit
    sr = np.arange(-2.0, 2.5, 0.5)
    spellings.explore(p, SUB, "whitsvc(nodata=-9999, srange=arange(-2, 2.5, 0.5))", lambda: W.whitsvc(nodata=-9999, srange=sr), {
        "srange float32": lambda: W.whitsvc(nodata=-9999, srange=sr.astype("float32")),
        "srange strided view": lambda: W.whitsvc(nodata=-9999, srange=np.repeat(sr, 2)[::2]),
        "srange Fortran / copy": lambda: W.whitsvc(nodata=-9999, srange=np.array(sr.tolist())),
        "nodata=-9999.0": lambda: W.whitsvc(nodata=-9999.0, srange=sr),
        "nodata=np.int16(-9999)": lambda: W.whitsvc(nodata=np.int16(-9999), srange=sr),
        "p=None explicitly": lambda: W.whitsvc(nodata=-9999, srange=sr, p=None),
    })
    c04_lc(p)
    c04_stale(p)
    sri = np.arange(-2.0, 3.0)
    spellings.explore(p, SUB, "whitsvc(nodata=-9999, srange=[-2..2], p=0.9)", lambda: W.whitsvc(nodata=-9999, srange=sri, p=0.9), {
        "srange int64": lambda: W.whitsvc(nodata=-9999, srange=np.arange(-2, 3), p=0.9),
        "srange float32": lambda: W.whitsvc(nodata=-9999, srange=sri.astype("float32"), p=0.9),
        "p=np.float64(0.9)": lambda: W.whitsvc(nodata=-9999, srange=sri, p=np.float64(0.9)),
    })


def c04_lc(p):
    import xarray as xr
    da = _cube()
    W = da.hdc.whit
    lc = xr.DataArray(np.array([[0.83, 0.12, np.nan], [0.5, 0.51, 0.9]]), dims=("y", "x"), coords={"y": da.y, "x": da.x})
    spellings.explore(p, SUB, "whitsvc(nodata=-9999, lc=raster, p=0.9)", lambda: W.whitsvc(nodata=-9999, lc=lc, p=0.9), {
        "srange given as well (the raster decides the grid)": lambda: W.whitsvc(nodata=-9999, lc=lc, srange=np.arange(-1.0, 2.5, 0.5), p=0.9),
        "srange=None explicitly": lambda: W.whitsvc(nodata=-9999, lc=lc, srange=None, p=0.9),
        "lc float32": lambda: W.whitsvc(nodata=-9999, lc=lc.astype("float32"), p=0.9),
        "lc transposed (x, y)": lambda: W.whitsvc(nodata=-9999, lc=lc.transpose("x", "y"), p=0.9),
        "lc without coordinates": lambda: W.whitsvc(nodata=-9999, lc=xr.DataArray(lc.values, dims=("y", "x")), p=0.9),
        "p=np.float64(0.9)": lambda: W.whitsvc(nodata=-9999, lc=lc, p=np.float64(0.9)),
    })


def c05(p):
    da = _cube()
    W = da.hdc.whit
    sr = np.arange(-2.0, 2.5, 0.5)
    for robust in (False, True):
        spellings.explore(p, SUB, f"whitswcv(nodata=-9999, srange=arange(-2, 2.5, 0.5), robust={robust})", lambda: W.whitswcv(nodata=-9999, srange=sr, robust=robust), {
            "srange float32": lambda: W.whitswcv(nodata=-9999, srange=sr.astype("float32"), robust=robust),
            "srange strided view": lambda: W.whitswcv(nodata=-9999, srange=np.repeat(sr, 2)[::2], robust=robust),
            "nodata=-9999.0": lambda: W.whitswcv(nodata=-9999.0, srange=sr, robust=robust),
            "robust as np.bool_": lambda: W.whitswcv(nodata=-9999, srange=sr, robust=np.bool_(robust)),
            "p=None explicitly": lambda: W.whitswcv(nodata=-9999, srange=sr, robust=robust, p=None),
        })
    # the placeholder given as argument is 0 while the object carries another (stale) nodata attribute
    da0 = da.where(da != -9999, 0).astype("int16")
    da0.attrs = {}                      # (where / astype keep the attributes; assign_attrs({}) would not clear them)
    for kw in ({"robust": False}, {"robust": True}, {"robust": False, "p": 0.9}):
        spellings.explore(p, SUB, f"whitswcv(nodata=0, srange, {kw}) on an object without nodata attribute",
                          lambda: da0.copy().hdc.whit.whitswcv(nodata=0, srange=sr, **kw), {
                              "the object carries attrs nodata=-9999": lambda: da0.assign_attrs(nodata=-9999).hdc.whit.whitswcv(nodata=0, srange=sr, **kw).map(lambda v: v.assign_attrs({})).assign_attrs({}),
                              "the object carries attrs nodata=7": lambda: da0.assign_attrs(nodata=7).hdc.whit.whitswcv(nodata=0, srange=sr, **kw).map(lambda v: v.assign_attrs({})).assign_attrs({}),
                              "nodata=0.0": lambda: da0.copy().hdc.whit.whitswcv(nodata=0.0, srange=sr, **kw),
                              "nodata=np.int16(0)": lambda: da0.copy().hdc.whit.whitswcv(nodata=np.int16(0), srange=sr, **kw),
                          })
    spellings.explore(p, SUB, "whitswcv(nodata=-9999) [default grid]", lambda: W.whitswcv(nodata=-9999), {
        "srange=None explicitly": lambda: W.whitswcv(nodata=-9999, srange=None),
        "the default grid passed explicitly": lambda: W.whitswcv(nodata=-9999, srange=np.arange(-1.8, 4.2, 0.2)),
        "robust=True explicitly": lambda: W.whitswcv(nodata=-9999, robust=True),
    })


def _dates(day):
    import pandas as pd
    ts = pd.Timestamp(day)
    return {"str": day, "pd.Timestamp": ts, "np.datetime64[D]": np.datetime64(day, "D"), "np.datetime64[ns]": np.datetime64(day, "ns"),
            "datetime.datetime": ts.to_pydatetime(), "str with time": day + " 00:00:00", "str ISO T": day + "T00:00:00"}


def c07(p):
    da = _cube()
    A = da.hdc.algo
    b, e = _dates("2000-01-21"), _dates("2000-03-31")
    spellings.explore(p, SUB, "spi(calibration_begin='2000-01-21', calibration_end='2000-03-31')",
                      lambda: A.spi(calibration_begin=b["str"], calibration_end=e["str"]),
                      {f"dates as {k}": (lambda k=k: A.spi(calibration_begin=b[k], calibration_end=e[k])) for k in b if k != "str"})
    spellings.explore(p, SUB, "spi()", lambda: A.spi(), {
        "nodata=-9999 as argument": lambda: A.spi(nodata=-9999),
        "nodata=-9999.0": lambda: A.spi(nodata=-9999.0),
        "nodata=np.int16(-9999)": lambda: A.spi(nodata=np.int16(-9999)),
        "dtype='int16' explicitly": lambda: A.spi(dtype="int16"),
        "dtype=np.int16": lambda: A.spi(dtype=np.int16),
        "window written as the whole axis": lambda: A.spi(calibration_begin="2000-01-01", calibration_end="2000-04-20"),
    })


def c09(p):
    import pandas as pd
    da = _cube()
    A = da.hdc.algo
    g = [0, 1, 2] * 4
    b, e = _dates("2000-01-11"), _dates("2000-04-10")
    spellings.explore(p, SUB, "spi(groups=[0,1,2]*4, calibration_begin='2000-01-11', calibration_end='2000-04-10')",
                      lambda: A.spi(groups=g, calibration_begin=b["str"], calibration_end=e["str"]),
                      {f"dates as {k}": (lambda k=k: A.spi(groups=g, calibration_begin=b[k], calibration_end=e[k])) for k in b if k != "str"})
    spellings.explore(p, SUB, "spi(groups=[0,1,2]*4)", lambda: A.spi(groups=g), {
        "groups as tuple": lambda: A.spi(groups=tuple(g)),
        "groups as int64 array": lambda: A.spi(groups=np.array(g)),
        "groups as int16 array": lambda: A.spi(groups=np.array(g, dtype="int16")),
        "groups as uint8 array": lambda: A.spi(groups=np.array(g, dtype="uint8")),
        "groups as float array": lambda: A.spi(groups=np.array(g, dtype="float64")),
        "groups as pandas Series": lambda: A.spi(groups=pd.Series(g)),
        "groups as pandas Index": lambda: A.spi(groups=pd.Index(g)),
        "groups as an array computed from the axis": lambda: A.spi(groups=np.arange(da.time.size) % 3),
        "groups as strings": lambda: A.spi(groups=[str(v) for v in g]),
        "groups as a generator-built list of np.int64": lambda: A.spi(groups=[np.int64(v) for v in g]),
    })


def c16(p):
    import xarray as xr
    da = _cube().transpose("time", "y", "x")
    zones = xr.DataArray(np.array([[0, 1, 1], [2, 0, 255]], dtype="int16"), dims=("y", "x"), coords={"y": da.y, "x": da.x}, attrs={"nodata": 255})
    Z = da.hdc.zonal
    spellings.explore(p, SUB, "zonal.mean(zones, [0, 1, 2])", lambda: Z.mean(zones, [0, 1, 2]), {
        "zone_ids as int64 array": lambda: Z.mean(zones, np.array([0, 1, 2])),
        "zone_ids as range": lambda: Z.mean(zones, range(3)),
        "zone_ids as uint8 array": lambda: Z.mean(zones, np.array([0, 1, 2], dtype="uint8")),
        "zones int32": lambda: Z.mean(zones.astype("int32").assign_attrs(zones.attrs), [0, 1, 2]),
        "zones uint8": lambda: Z.mean(zones.astype("uint8").assign_attrs(zones.attrs), [0, 1, 2]),
        "zones int64": lambda: Z.mean(zones.astype("int64").assign_attrs(zones.attrs), [0, 1, 2]),
        "zones without coordinates": lambda: Z.mean(xr.DataArray(zones.values, dims=("y", "x"), attrs=zones.attrs), [0, 1, 2]),
        "zones transposed (x, y)": lambda: Z.mean(zones.transpose("x", "y"), [0, 1, 2]),
        "dtype='float32' explicitly": lambda: Z.mean(zones, [0, 1, 2], dtype="float32"),
        "dtype=np.float32": lambda: Z.mean(zones, [0, 1, 2], dtype=np.float32),
        "dim_name='zones' explicitly": lambda: Z.mean(zones, [0, 1, 2], dim_name="zones"),
        "nodata attribute as float": lambda: da.assign_attrs(nodata=-9999.0).hdc.zonal.mean(zones, [0, 1, 2]).assign_attrs(nodata=-9999),
    })


def c17(p):
    da = _cube()
    R = da.hdc.rolling
    spellings.explore(p, SUB, "rolling.sum(3)", lambda: R.sum(3), {
        "window np.int64(3)": lambda: R.sum(np.int64(3)),
        "window np.int16(3)": lambda: R.sum(np.int16(3)),
        "window np.uint8(3)": lambda: R.sum(np.uint8(3)),
        "window_size keyword": lambda: R.sum(window_size=3),
        "nodata=-9999 as argument": lambda: R.sum(3, nodata=-9999),
        "nodata=-9999.0": lambda: R.sum(3, nodata=-9999.0),
        "nodata=np.int16(-9999)": lambda: R.sum(3, nodata=np.int16(-9999)),
        "dimension='time' explicitly": lambda: R.sum(3, dimension="time"),
        "dtype='float32' explicitly": lambda: R.sum(3, dtype="float32"),
    })
    A = da.hdc.algo
    g = [0, 1, 2] * 4
    import pandas as pd
    spellings.explore(p, SUB, "mean_grp([0,1,2]*4)", lambda: A.mean_grp(g), {
        "groups as tuple": lambda: A.mean_grp(tuple(g)),
        "groups as int16 array": lambda: A.mean_grp(np.array(g, dtype="int16")),
        "groups as uint8 array": lambda: A.mean_grp(np.array(g, dtype="uint8")),
        "groups as pandas Series": lambda: A.mean_grp(pd.Series(g)),
        "nodata=-9999 as argument": lambda: A.mean_grp(g, nodata=-9999),
        "nodata=-9999.0": lambda: A.mean_grp(g, nodata=-9999.0),
    })


def c19(p):
    da = _cube().astype("float64")
    I = da.hdc.iteragg

    def L(gen):
        return list(gen)
    b, e = _dates("2000-03-01"), _dates("2000-01-21")
    spellings.explore(p, SUB, "iteragg.sum(n=3, begin='2000-03-01', end='2000-01-21')", lambda: L(I.sum(n=3, begin=b["str"], end=e["str"])),
                      {f"dates as {k}": (lambda k=k: L(I.sum(n=3, begin=b[k], end=e[k]))) for k in b if k != "str"})
    spellings.explore(p, SUB, "iteragg.mean(n=3)", lambda: L(I.mean(n=3)), {
        "n=np.int64(3)": lambda: L(I.mean(n=np.int64(3))),
        "n=np.int16(3)": lambda: L(I.mean(n=np.int16(3))),
        "dim='time' explicitly": lambda: L(I.mean(n=3, dim="time")),
        "begin / end None explicitly": lambda: L(I.mean(n=3, begin=None, end=None)),
        "positional n": lambda: L(I.mean(3)),
    })


def c20(p):
    import pandas as pd
    import xarray as xr
    T = 7
    time = pd.to_datetime(["2000-01-01", "2000-01-09", "2000-01-17", "2000-02-02", "2000-02-10", "2000-02-26", "2000-03-05"])
    v = np.array([[[120, 340, 560, 400, 300, 800, 650], [5, 7, 5, 7, 5, 7, 5]]], dtype="int16")
    da = xr.DataArray(v, dims=("y", "x", "time"), coords={"time": time}, attrs={"nodata": -9999})
    days = pd.date_range(time[0], time[-1], freq="D")
    tmpl = np.isin(days, time).astype("float64")
    labels = (np.minimum((np.asarray(days.day) - 1) // 10, 2) + 3 * (np.asarray(days.month) - 1)).astype("int32")
    W = da.hdc.whit
    spellings.explore(p, SUB, "whitint(labels_daily int32, template float64)", lambda: W.whitint(labels, tmpl), {
        "labels int16": lambda: W.whitint(labels.astype("int16"), tmpl),
        "labels uint8": lambda: W.whitint(labels.astype("uint8"), tmpl),
        "labels strided view": lambda: W.whitint(np.repeat(labels, 2)[::2], tmpl),
        "template bool": lambda: W.whitint(labels, tmpl.astype(bool)),
        "template uint8": lambda: W.whitint(labels, tmpl.astype("uint8")),
        "template int64": lambda: W.whitint(labels, tmpl.astype("int64")),
        "template float32": lambda: W.whitint(labels, tmpl.astype("float32")),
        "template strided view": lambda: W.whitint(labels, np.repeat(tmpl, 2)[::2]),
        "keywords": lambda: W.whitint(labels_daily=labels, template=tmpl),
    })


FAMILIES = {"C03": c03, "C04": c04, "C05": c05, "C07": c07, "C09": c09, "C16": c16, "C17": c17, "C19": c19, "C20": c20}


def run(p, pid):
    FAMILIES[pid](p)
    p.sample(SUB, {"rule": "canonical call x every alternative spelling of one argument; identical results or the same refusal"})

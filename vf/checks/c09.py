"""C09 — SPI calibration window and grouping select exactly the intended samples.

Bounded exhaustive product: time axes = every subset (3..6 steps) of a 9-position lattice x every begin/end
date on, between, before and after the steps (all pairs, reversed and empty ones included); groups: every
set partition of 6..7(9)-step axes into 1..3(4) groups in four label spellings.  Oracle: index reference
{t : begin <= t <= end} with plain comparisons; attrs = first / last such step; grouped SPI == per-group
ungrouped SPI of the sub-series (differential between the two real paths); invalid windows raise ValueError.
"""
from __future__ import annotations

import importlib
import itertools
import warnings

import numpy as np

from .. import sse

LEVEL = "exploration"
RULE = ("time axes x begin x end (ungrouped); axes x set partitions x spellings x begin x end (grouped); non-trivial = "
        "window with a bound strictly inside the axis or between two steps, or a partition with >= 2 groups; distinct = "
        "(axis, partition, spelling, begin, end)")
ASSUMPTIONS = [
    "a window is valid when it contains at least two time steps (of every group); every other window must raise ValueError",
    "begin/end are given as ISO date strings, as in the package's documentation and tests",
]

ND = -9999
BASE = np.datetime64("2001-02-24")   # lattice crosses a month boundary
STEP = 2                              # days between lattice positions; odd offsets fall between steps


def _mods():
    import hdc.algo  # noqa: F401
    return importlib.import_module("hdc.algo.ops.stats"), importlib.import_module("hdc.algo.utils")


def day(k):
    return BASE + np.timedelta64(int(k), "D")


def iso(k):
    return str(day(k))


PIX = np.array([
    [3, 7, 1, 30, 2, 9, 4, 15, 6],
    [10, 12, 11, 13, 9, 10, 12, 11, 25],
    [1, 2, 3, 4, 5, 6, 7, 8, 9],
    [4, 0, 12, 0, 7, 33, 2, 5, 0],
    [40, ND, 30, 2, 7, ND, 12, 18, 1],
], dtype="int16")


def cube_for(positions):
    import pandas as pd
    import xarray as xr
    t = pd.DatetimeIndex([day(STEP * k) for k in positions])
    data = PIX[:, list(positions)].reshape(5, 1, len(positions))
    return xr.DataArray(data, dims=("y", "x", "time"), coords={"time": t}, attrs={"nodata": ND})


def ref_window(days, b, e):
    """Reference: positions with b <= t <= e (None = unbounded). days: lattice day offsets of the axis."""
    return [i for i, d in enumerate(days) if (b is None or d >= b) and (e is None or d <= e)]


def _ungrouped_task(task, p):
    st, ut = _mods()
    positions = task
    import pandas as pd
    sub = "window"
    days = [STEP * k for k in positions]
    da = cube_for(positions)
    n = len(positions)
    cands = [None] + list(range(-1, STEP * 8 + 2))
    x = da.values.reshape(5, 1, n)
    tix = da.get_index("time")
    nontriv = 0
    nvalid_windows = 0
    for b, e in itertools.product(cands, cands):
        inside = ref_window(days, b, e)
        valid = len(inside) >= 2 and (b is None or e is None or b <= e)
        # contiguous by construction
        kw = {}
        if b is not None:
            kw["calibration_begin"] = iso(b)
        if e is not None:
            kw["calibration_end"] = iso(e)
        key = {"axis": list(positions), "begin": b, "end": e}
        case = {"kind": "win", "axis": list(positions), "begin": b, "end": e}
        p.count(sub, evaluations=1)
        if (b is not None and b not in days) or (e is not None and e not in days) or (inside and (inside[0] > 0 or inside[-1] < n - 1)):
            nontriv += 1
        # utils.get_calibration_indices directly
        if b is not None and e is not None:
            got = ut.get_calibration_indices(tix, (iso(b), iso(e)))
            exp = (sum(1 for d in days if d < b), sum(1 for d in days if d <= e))
            if tuple(int(v) for v in got) != exp:
                p.violation("indices", key, case, f"get_calibration_indices(axis days {days}, begin day {b}, end day {e}) = {tuple(int(v) for v in got)}, expected {exp}")
        try:
            with warnings.catch_warnings():
                warnings.simplefilter("ignore")
                res = da.hdc.algo.spi(**kw)
            err = None
        except ValueError as ex:
            err = ex
        except Exception as ex:
            p.violation(sub, key, case, f"spi({kw}) on axis days {days} raised {type(ex).__name__}: {ex}")
            continue
        if not valid:
            if err is None:
                p.violation(sub, key, case, f"spi({kw}) on axis days {days}: window holds {len(inside)} step(s) and must raise ValueError, but a result was returned")
            continue
        if err is not None:
            p.violation(sub, key, case, f"spi({kw}) on axis days {days} raised ValueError({err}) although the window holds steps {inside}")
            continue
        exp = np.asarray(st.gammastd_yxt(x, ND, inside[0], inside[-1] + 1)).reshape(5, n)
        got = res.values.reshape(5, n)
        # the kernel on every pixel alone and on the cube with its pixels in reverse order: nothing a pixel needs may
        # carry over to the pixels processed after it
        alone = np.concatenate([np.asarray(st.gammastd_yxt(x[r:r + 1].copy(), ND, inside[0], inside[-1] + 1)).reshape(1, n) for r in range(5)])
        rev = np.asarray(st.gammastd_yxt(x[::-1].copy(), ND, inside[0], inside[-1] + 1)).reshape(5, n)[::-1]
        for what, other in (("each pixel alone", alone), ("the pixels in reverse order", rev)):
            if not np.array_equal(other, exp):
                r = int(np.nonzero((other != exp).any(axis=1))[0][0])
                p.violation(sub, dict(key, what=what), case, f"gammastd_yxt, window steps {inside} on axis days {days}: pixel {PIX[r, list(positions)].tolist()} inside the cube -> "
                                                             f"{exp[r].tolist()}, with {what} -> {other[r].tolist()}")
        # the same request on the dask-backed cube (every third window): what is computed later must still use
        # the window that was asked for
        nvalid_windows += 1
        if nvalid_windows % 3 == 0:
            try:
                with warnings.catch_warnings():
                    warnings.simplefilter("ignore")
                    lazy = da.chunk({"y": 2, "x": 1, "time": -1}).hdc.algo.spi(**kw)
                    got_l = np.asarray(lazy.compute().values).reshape(5, n)
                if not np.array_equal(got_l, exp):
                    r = int(np.nonzero((got_l != exp).any(axis=1))[0][0])
                    p.violation(sub, dict(key, what="dask"), case, f"spi({kw}) on the dask-backed cube, axis days {days}: pixel {PIX[r, list(positions)].tolist()} -> "
                                                                    f"{got_l[r].tolist()}, but fitting on exactly the steps {inside} gives {exp[r].tolist()}")
                if lazy.attrs.get("spi_calibration_begin") != str(tix[inside[0]]) or lazy.attrs.get("spi_calibration_end") != str(tix[inside[-1]]):
                    p.violation(sub, dict(key, what="dask attrs"), case, f"spi({kw}) on the dask-backed cube: attrs {lazy.attrs.get('spi_calibration_begin')} / {lazy.attrs.get('spi_calibration_end')}")
            except Exception as ex:
                p.violation(sub, dict(key, what="dask"), case, f"spi({kw}) on the dask-backed cube raised {type(ex).__name__}: {ex}")
        if not np.array_equal(got, exp):
            r = int(np.nonzero((got != exp).any(axis=1))[0][0])
            p.violation(sub, key, case, f"spi({kw}) on axis days {days}: pixel {PIX[r, list(positions)].tolist()} -> {got[r].tolist()}, "
                                        f"but fitting on exactly the steps {inside} gives {exp[r].tolist()}")
        a = res.attrs
        if a.get("spi_calibration_begin") != str(tix[inside[0]]) or a.get("spi_calibration_end") != str(tix[inside[-1]]):
            p.violation(sub, dict(key, what="attrs"), case,
                        f"spi({kw}) on axis days {days}: attrs {a.get('spi_calibration_begin')} / {a.get('spi_calibration_end')}, "
                        f"expected {tix[inside[0]]} / {tix[inside[-1]]}")
    p.count(sub, nontrivial=nontriv)
    if positions == (0, 2, 3, 5, 8):
        p.sample(sub, {"axis_days": days, "begin_day": 5, "end_day": 12, "steps_in_window": ref_window(days, 5, 12)})


def far_dates(ctx):
    """Open-ended windows written as far-away sentinels (years 1, 1400, 2500, 9999): they are ordinary dates
    'before the first' / 'after the last' step and must select what None selects."""
    st, ut = _mods()
    sub = "far_dates"
    far_before = ["0001-01-01", "1400-01-01", "1677-01-01"]
    far_after = ["2262-12-31", "2500-01-01", "9999-12-31"]
    for positions in ((0, 2, 3, 5, 8), (0, 1, 2, 3, 4, 5)):
        da = cube_for(positions)
        days = [STEP * k for k in positions]
        n = len(positions)
        x = da.values.reshape(5, 1, n)
        tix = da.get_index("time")
        lab = ([0, 1] * n)[:n]
        for b in [None, iso(days[1])] + far_before:
            for e in [None, iso(days[-2])] + far_after:
                if b is None and e is None:
                    continue
                kw = {}
                if b is not None:
                    kw["calibration_begin"] = b
                if e is not None:
                    kw["calibration_end"] = e
                lo = 1 if b == iso(days[1]) else 0
                hi = n - 2 if e == iso(days[-2]) else n - 1
                key = {"axis": list(positions), "begin": b, "end": e}
                ctx.count(sub, evaluations=1, nontrivial=1)
                try:
                    with warnings.catch_warnings():
                        warnings.simplefilter("ignore")
                        res = da.hdc.algo.spi(**kw)
                except Exception as ex:
                    ctx.violation(sub, key, {"kind": "far"}, f"spi({kw}) on axis days {days} raised {type(ex).__name__}: {ex} (the window holds steps {lo}..{hi})")
                    continue
                exp = np.asarray(st.gammastd_yxt(x, ND, lo, hi + 1)).reshape(5, n)
                if not np.array_equal(res.values.reshape(5, n), exp):
                    ctx.violation(sub, key, {"kind": "far"}, f"spi({kw}) on axis days {days} does not fit on the steps {lo}..{hi}")
                a = res.attrs
                if a.get("spi_calibration_begin") != str(tix[lo]) or a.get("spi_calibration_end") != str(tix[hi]):
                    ctx.violation(sub, dict(key, what="attrs"), {"kind": "far"}, f"spi({kw}): attrs {a.get('spi_calibration_begin')} / {a.get('spi_calibration_end')}")
                if n == 6 and (b in far_before or b is None) and (e in far_after or e is None):
                    with warnings.catch_warnings():
                        warnings.simplefilter("ignore")
                        try:
                            g = da.hdc.algo.spi(groups=lab, **kw).values
                            g0 = da.hdc.algo.spi(groups=lab).values
                            if not np.array_equal(g, g0):
                                ctx.violation(sub, dict(key, grouped=True), {"kind": "far"}, f"grouped spi({kw}) differs from the grouped default window")
                        except Exception as ex:
                            ctx.violation(sub, dict(key, grouped=True), {"kind": "far"}, f"grouped spi({kw}) raised {type(ex).__name__}: {ex}")
    ctx.sample(sub, {"far_before": far_before, "far_after": far_after})


def _tod_task(task, p):
    """Axes stamped at 10:30 (not midnight): begin/end at 00:00, exactly on the stamp, and at 23:00 of every lattice
    day, and the default window whose end is the last (non-midnight) timestamp."""
    import pandas as pd
    import xarray as xr
    st, ut = _mods()
    positions = task
    sub = "time_of_day"
    n = len(positions)
    stamp = np.timedelta64(10 * 60 + 30, "m")
    tvals = [day(STEP * k) + stamp for k in positions]
    t = pd.DatetimeIndex(tvals)
    da = xr.DataArray(PIX[:, list(positions)].reshape(5, 1, n), dims=("y", "x", "time"), coords={"time": t}, attrs={"nodata": ND})
    x = da.values.reshape(5, 1, n)
    tix = da.get_index("time")
    cands = [None]
    for k in range(-1, STEP * 8 + 2):
        for hm in (0, 10 * 60 + 30, 23 * 60):
            cands.append(day(k) + np.timedelta64(hm, "m"))
    for b, e in itertools.product(cands, cands):
        inside = [i for i, tv in enumerate(tvals) if (b is None or tv >= b) and (e is None or tv <= e)]
        valid = len(inside) >= 2
        kw = {}
        if b is not None:
            kw["calibration_begin"] = str(b)
        if e is not None:
            kw["calibration_end"] = str(e)
        key = {"axis": list(positions), "begin": str(b), "end": str(e)}
        case = {"kind": "tod", "axis": list(positions)}
        p.count(sub, evaluations=1, nontrivial=1)
        try:
            with warnings.catch_warnings():
                warnings.simplefilter("ignore")
                res = da.hdc.algo.spi(**kw)
            err = None
        except ValueError as ex:
            err = ex
        except Exception as ex:
            p.violation(sub, key, case, f"spi({kw}) on the 10:30 axis {list(positions)} raised {type(ex).__name__}: {ex}")
            continue
        if not valid:
            if err is None:
                p.violation(sub, key, case, f"spi({kw}) on the 10:30 axis days {[STEP * k for k in positions]}: window holds {len(inside)} step(s), ValueError required")
            continue
        if err is not None:
            p.violation(sub, key, case, f"spi({kw}) on the 10:30 axis days {[STEP * k for k in positions]} raised ValueError({err}) although steps {inside} are inside")
            continue
        exp = np.asarray(st.gammastd_yxt(x, ND, inside[0], inside[-1] + 1)).reshape(5, n)
        got = res.values.reshape(5, n)
        if not np.array_equal(got, exp):
            p.violation(sub, key, case, f"spi({kw}) on an axis stamped at 10:30 (days {[STEP * k for k in positions]}) does not fit on exactly the steps {inside}: "
                                        f"{got[0].tolist()} vs {exp[0].tolist()}")
        a = res.attrs
        if a.get("spi_calibration_begin") != str(tix[inside[0]]) or a.get("spi_calibration_end") != str(tix[inside[-1]]):
            p.violation(sub, dict(key, what="attrs"), case, f"spi({kw}) attrs {a.get('spi_calibration_begin')} / {a.get('spi_calibration_end')}, expected {tix[inside[0]]} / {tix[inside[-1]]}")
    # grouped path on the same axis: default window and one sub-window
    if n >= 6:
        lab = [0, 1] * (n // 2) + [0] * (n % 2)
        for kw in ({}, {"calibration_end": str(tvals[-2])}, {"calibration_begin": str(tvals[1])}):
            with warnings.catch_warnings():
                warnings.simplefilter("ignore")
                try:
                    got = da.hdc.algo.spi(groups=lab, **kw).values.reshape(5, n)
                    exp = np.full((5, n), 12345)
                    for g in (0, 1):
                        m = [i for i in range(n) if lab[i] == g]
                        exp[:, m] = da.isel(time=m).hdc.algo.spi(**kw).values.reshape(5, len(m))
                except ValueError:
                    continue
            p.count(sub, evaluations=1, nontrivial=1)
            if not np.array_equal(got, exp):
                p.violation(sub, {"axis": list(positions), "grouped": True, "kw": kw}, case, f"grouped spi({kw}) on the 10:30 axis differs from the per-group ungrouped SPI")
    if positions == (0, 2, 3, 5, 8):
        p.sample(sub, {"axis_days": [STEP * k for k in positions], "stamp": "10:30", "candidates": "00:00 / 10:30 / 23:00 of every lattice day, and None"})


SPELL = {
    "ints": lambda g: [int(v) for v in g],
    "strings": lambda g: [["10", "2", "1", "03"][v] for v in g],
    "floats": lambda g: [[0.5, 2.25, -1.0, 7.0][v] for v in g],
    "permuted": lambda g: [[2, 0, 3, 1][v] for v in g],
    # numbers whose numeric order is not the order of their spellings ('10' < '2', '100' < '33')
    "two-digit ints": lambda g: [[2, 10, 33, 100][v] for v in g],
    "two-digit ints, reversed": lambda g: [[100, 33, 10, 2][v] for v in g],
    "floats 2.0 / 10.0": lambda g: [[2.0, 10.0, 33.5, 100.0][v] for v in g],
    "months 9..12": lambda g: [[9, 10, 11, 12][v] for v in g],
}


def _grouped_task(task, p):
    st, ut = _mods()
    positions, labelings, maxk = task
    sub = "groups"
    days = [STEP * k for k in positions]
    n = len(positions)
    da = cube_for(positions)
    step_c = sorted(set(days))
    cands = [None, -1] + step_c + [days[1] + 1, days[-1] + 1]
    for lab in labelings:
        lab = np.array(lab)
        k = lab.max() + 1
        members = [np.nonzero(lab == g)[0] for g in range(k)]
        subs = [da.isel(time=m) for m in members]
        nvalid_seen = 0
        for b, e in itertools.product(cands, cands):
            kw = {}
            if b is not None:
                kw["calibration_begin"] = iso(b)
            if e is not None:
                kw["calibration_end"] = iso(e)
            per_group = [[i for i in m if (b is None or days[i] >= b) and (e is None or days[i] <= e)] for m in members]
            valid = all(len(g) >= 2 for g in per_group) and (b is None or e is None or b <= e)
            key = {"axis": list(positions), "labels": lab.tolist(), "begin": b, "end": e}
            case = {"kind": "grp", "axis": list(positions), "labels": lab.tolist(), "begin": b, "end": e}
            p.count(sub, evaluations=1, nontrivial=int(k >= 2))
            try:
                with warnings.catch_warnings():
                    warnings.simplefilter("ignore")
                    res = da.hdc.algo.spi(groups=lab.tolist(), **kw)
                err = None
            except ValueError as ex:
                err = ex
            except Exception as ex:
                p.violation(sub, key, case, f"spi(groups={lab.tolist()}, {kw}) raised {type(ex).__name__}: {ex}")
                continue
            if not valid:
                if err is None:
                    p.violation(sub, key, case, f"spi(groups={lab.tolist()}, {kw}) on axis days {days}: some group has fewer than two steps in the window "
                                                f"({[len(g) for g in per_group]}) and ValueError is required, but a result was returned")
                continue
            if err is not None:
                p.violation(sub, key, case, f"spi(groups={lab.tolist()}, {kw}) on axis days {days} raised ValueError({err}) although every group has >= 2 steps in the window")
                continue
            got = res.values.reshape(5, n)
            # per-group ungrouped SPI of the sub-series under the same window
            exp = np.full((5, n), 12345, dtype=np.int64)
            ok = True
            for m, sda in zip(members, subs):
                try:
                    with warnings.catch_warnings():
                        warnings.simplefilter("ignore")
                        r = sda.hdc.algo.spi(**kw).values.reshape(5, len(m))
                except Exception as ex:
                    p.violation(sub, key, case, f"ungrouped spi({kw}) on the sub-series of a group raised {type(ex).__name__}: {ex}")
                    ok = False
                    break
                exp[:, m] = r
            if ok and not np.array_equal(got, exp):
                r = int(np.nonzero((got != exp).any(axis=1))[0][0])
                p.violation(sub, key, case, f"spi(groups={lab.tolist()}, {kw}) on axis days {days}: pixel {PIX[r, list(positions)].tolist()} -> {got[r].tolist()}, "
                                            f"per-group ungrouped SPI gives {exp[r].tolist()}")
            # attrs: first / last step of the whole axis inside the window
            inside = ref_window(days, b, e)
            tix = da.get_index("time")
            a = res.attrs
            if a.get("spi_calibration_begin") != str(tix[inside[0]]) or a.get("spi_calibration_end") != str(tix[inside[-1]]):
                p.violation(sub, dict(key, what="attrs"), case, f"grouped spi({kw}): attrs {a.get('spi_calibration_begin')} / {a.get('spi_calibration_end')}")
            # spellings: only the induced partition matters (first few valid windows of each labeling)
            nvalid_seen += 1
            if nvalid_seen <= 12:
                for name, f in SPELL.items():
                    if name == "ints":
                        continue
                    with warnings.catch_warnings():
                        warnings.simplefilter("ignore")
                        try:
                            r2 = da.hdc.algo.spi(groups=f(lab), **kw).values.reshape(5, n)
                        except Exception as ex:
                            p.violation("spellings", dict(key, spelling=name), case, f"spi(groups={f(lab)}, {kw}) raised {type(ex).__name__}: {ex}")
                            continue
                    p.count("spellings", evaluations=1, nontrivial=1)
                    if not np.array_equal(r2, got):
                        p.violation("spellings", dict(key, spelling=name), case,
                                    f"spi with groups spelled {f(lab)} differs from the same partition spelled {lab.tolist()} ({kw})")
                if k == 1:
                    with warnings.catch_warnings():
                        warnings.simplefilter("ignore")
                        r3 = da.hdc.algo.spi(**kw).values.reshape(5, n)
                    if not np.array_equal(r3, got):
                        p.violation("single_group", key, case, f"spi with a single group differs from the ungrouped result ({kw})")
    p.sample(sub, {"axis_days": days, "labels": np.array(labelings[len(labelings) // 2]).tolist(), "candidates_days": cands})


def _sequence_task(task, p):
    """Call sequences in ONE process: axes that share length, first and last stamp (and labels and window) but
    differ inside.  A result must not depend on what was computed before (memoised indices keyed too coarsely)."""
    st, ut = _mods()
    sub = "call_sequences"
    axes = [c for c in itertools.combinations(range(9), 7) if c[0] == 0 and c[-1] == 8]
    lab = [0, 1, 0, 1, 2, 2, 0]
    spelled = ["10", "2", "10", "2", "7", "7", "10"]
    windows = [(None, None), (3, 13), (2, 12), (5, None), (None, 11)]
    das = [cube_for(ax) for ax in axes]
    order = list(range(len(axes))) + list(range(len(axes) - 1, -1, -1))     # forward, then backward
    for b, e in windows:
        kw = {}
        if b is not None:
            kw["calibration_begin"] = iso(b)
        if e is not None:
            kw["calibration_end"] = iso(e)
        for groups in (lab, spelled):
            for ai in order:
                ax, da = axes[ai], das[ai]
                days = [STEP * k for k in ax]
                members = [[i for i in range(7) if lab[i] == g] for g in range(3)]
                per_group = [[i for i in m if (b is None or days[i] >= b) and (e is None or days[i] <= e)] for m in members]
                valid = all(len(g) >= 2 for g in per_group)
                p.count(sub, evaluations=1, nontrivial=1)
                key = {"axis": list(ax), "begin": b, "end": e, "groups": groups}
                case = {"kind": "seq"}
                try:
                    with warnings.catch_warnings():
                        warnings.simplefilter("ignore")
                        got = da.hdc.algo.spi(groups=groups, **kw).values.reshape(5, 7)
                    err = None
                except ValueError as ex:
                    err = ex
                if not valid:
                    if err is None:
                        p.violation(sub, key, case, f"spi(groups, {kw}) on axis days {days} (after other axes in the same process): ValueError required, result returned")
                    continue
                if err is not None:
                    p.violation(sub, key, case, f"spi(groups, {kw}) on axis days {days} (after other axes in the same process) raised ValueError({err})")
                    continue
                exp = np.full((5, 7), 12345, dtype=np.int64)
                for m in members:
                    with warnings.catch_warnings():
                        warnings.simplefilter("ignore")
                        exp[:, m] = da.isel(time=m).hdc.algo.spi(**kw).values.reshape(5, len(m))
                if not np.array_equal(got, exp):
                    p.violation(sub, key, case, f"spi(groups={groups}, {kw}) on axis days {days}, called after axes with the same length / first / last stamp: "
                                                f"{got[0].tolist()} differs from the per-group ungrouped SPI {exp[0].tolist()}")
    # the helper itself, same idea
    import pandas as pd
    g = np.array(lab)
    for ai in order:
        t = pd.DatetimeIndex([day(STEP * k) for k in axes[ai]])
        days = [STEP * k for k in axes[ai]]
        got = np.asarray(ut.get_calibration_indices(t, (iso(3), iso(13)), g, 3)).tolist()
        exp = [[sum(1 for i in range(7) if g[i] == q and days[i] < 3), sum(1 for i in range(7) if g[i] == q and days[i] <= 13)] for q in range(3)]
        p.count(sub, evaluations=1)
        if got != exp:
            p.violation(sub, {"axis": list(axes[ai]), "fn": "get_calibration_indices"}, {"kind": "seq"},
                        f"get_calibration_indices on axis days {days} after other axes: {got}, expected {exp}")
    p.sample(sub, {"axes": len(axes), "same": "length 7, first day 0, last day 16", "order": "forward then backward", "windows": windows})


def direct(ctx):
    """to_linspace and get_calibration_indices directly, and 36 dekad groups on a 3-year dekadal axis."""
    import pandas as pd
    import xarray as xr
    st, ut = _mods()
    sub = "utils"
    for arr in (np.array([5, 3, 5, 9, 3]), np.array(["10", "2", "10", "1"]), np.array([[2.5, -1.0], [2.5, 7.0]]), np.array([7]),
                np.array(["b", "a", "c", "a"]), np.arange(36)[::-1].repeat(2)):
        new, keys = ut.to_linspace(arr)
        ks = sorted(set(arr.ravel().tolist()))
        exp = np.array([ks.index(v) for v in arr.ravel().tolist()]).reshape(arr.shape)
        ctx.count(sub, evaluations=1, nontrivial=1)
        if list(keys) != ks or not np.array_equal(np.asarray(new), exp):
            ctx.violation(sub, {"fn": "to_linspace", "x": arr.tolist()}, {"kind": "utils"}, f"to_linspace({arr.tolist()}) = {np.asarray(new).tolist()}, {list(keys)}; expected {exp.tolist()}, {ks}")
    # grouped indices directly
    t = pd.DatetimeIndex([day(2 * k) for k in range(8)])
    g = np.array([0, 1, 0, 1, 2, 2, 0, 1])
    for b, e in itertools.product(range(-1, 17), range(-1, 17)):
        got = ut.get_calibration_indices(t, (iso(b), iso(e)), g, 3)
        exp = [[sum(1 for k in range(8) if g[k] == q and 2 * k < b), sum(1 for k in range(8) if g[k] == q and 2 * k <= e)] for q in range(3)]
        ctx.count(sub, evaluations=1, nontrivial=1)
        if np.asarray(got).tolist() != exp:
            ctx.violation(sub, {"fn": "get_calibration_indices", "begin": b, "end": e}, {"kind": "utils"},
                          f"get_calibration_indices(groups, begin day {b}, end day {e}) = {np.asarray(got).tolist()}, expected {exp}")
    # dekad groups over three years
    tt = []
    for y in (2001, 2002, 2003):
        for m in range(1, 13):
            for d in (1, 11, 21):
                tt.append(np.datetime64(f"{y}-{m:02d}-{d:02d}"))
    tt = pd.DatetimeIndex(tt)
    n = len(tt)
    vals = ((np.arange(n) * 37) % 23 + 1 + (np.arange(n) % 36)).astype("int16")
    da = xr.DataArray(np.stack([vals, vals[::-1].copy()]).reshape(2, 1, n), dims=("y", "x", "time"), coords={"time": tt}, attrs={"nodata": ND})
    grp = da.time.dekad.yidx.values
    with warnings.catch_warnings():
        warnings.simplefilter("ignore")
        res = da.hdc.algo.spi(groups=grp, calibration_begin="2001-01-01", calibration_end="2002-12-31").values.reshape(2, n)
        for q in range(1, 37):
            m = np.nonzero(grp == q)[0]
            r = da.isel(time=m).hdc.algo.spi(calibration_begin="2001-01-01", calibration_end="2002-12-31").values.reshape(2, len(m))
            ctx.count(sub, evaluations=1, nontrivial=1)
            if not np.array_equal(res[:, m], r):
                ctx.violation(sub, {"fn": "spi dekad groups", "group": q}, {"kind": "utils"}, f"36 dekad groups: group {q} differs from the ungrouped SPI of its sub-series")
    ctx.sample(sub, {"to_linspace_inputs": 6, "dekad_groups": 36})


def influence(ctx):
    """Which samples reach the fit, decided at the kernels without a second implementation of the fit: replace one
    valid positive observation by another positive value and look at the indices of all OTHER positions.  A
    position outside the calibration window must have no influence (the zero share is unchanged as well); the
    enumeration is over every pixel of PIX (two of them with nodata cells), every window [i, j) with >= 2 steps,
    every position, ungrouped and with two interleaved / blocked groups."""
    st, ut = _mods()
    sub = "influence"
    n = PIX.shape[1]
    inside_seen = 0

    def outputs(x, i, j, lab):
        if lab is None:
            return np.asarray(st.gammastd_yxt(x.reshape(-1, 1, n), ND, i, j)).reshape(-1, n)
        return np.asarray(st.gammastd_grp(x, lab, int(lab.max()) + 1, ND, np.array([[i, j]] * (int(lab.max()) + 1), dtype="int16")))

    labelings = [None, np.array([0, 1, 0, 1, 0, 1, 0, 1, 0], dtype="int16"), np.array([0, 0, 0, 0, 1, 1, 1, 1, 1], dtype="int16")]
    for lab in labelings:
        if lab is None:
            windows = [(i, j) for i in range(n) for j in range(i + 2, n + 1)]
            member_pos = [list(range(n))]
        else:
            k = int(lab.max()) + 1
            member_pos = [np.nonzero(lab == g)[0].tolist() for g in range(k)]
            m = min(len(mp) for mp in member_pos)
            windows = [(i, j) for i in range(m) for j in range(i + 2, m + 1)]
        for dtype in (("int16", "float64") if lab is None else ("int16", "float32")):
            X = PIX.astype(dtype)
            for (i, j) in windows:
                base = outputs(X.copy(), i, j, lab)
                in_window = set()
                for mp in member_pos:
                    in_window.update(mp[i:j])
                for k_ in range(n):
                    col_ok = PIX[:, k_] > 0          # only rows where the cell is a valid positive observation
                    if not col_ok.any():
                        continue
                    X2 = X.copy()
                    X2[col_ok, k_] = X2[col_ok, k_] + 17
                    out = outputs(X2, i, j, lab)
                    others = [q for q in range(n) if q != k_]
                    changed = (out[:, others] != base[:, others]).any(axis=1) & col_ok
                    ctx.count(sub, evaluations=int(col_ok.sum()), states=int(col_ok.sum()), nontrivial=int(col_ok.sum()) if k_ not in in_window else 0)
                    if k_ in in_window:
                        inside_seen += int(changed.sum())
                        continue
                    if changed.any():
                        r = int(np.nonzero(changed)[0][0])
                        ctx.violation(sub, {"labels": None if lab is None else lab.tolist(), "window": [i, j], "position": k_, "dtype": dtype, "pixel": r},
                                      {"kind": "influence"},
                                      f"{'gammastd_yxt' if lab is None else 'gammastd_grp'}[{dtype}] on {PIX[r].tolist()}"
                                      f"{'' if lab is None else ' with groups ' + str(lab.tolist())}, calibration index window [{i},{j}): raising the observation at "
                                      f"position {k_} (outside the window) by 17 changes the indices of other positions: {base[r].tolist()} -> {out[r].tolist()}")
    ctx.note("influence_inside_window_changes_seen", inside_seen)
    if inside_seen == 0:
        ctx.set_undecided(sub, "no observation inside a window ever influenced the result: the probe is blind")
    ctx.sample(sub, {"pixel": PIX[4].tolist(), "window": [0, 4], "perturbed_position": 4, "rule": "positions outside the window must not influence other positions"})


def long_axes(ctx):
    """Time axes longer than a 16-bit index can address (daily records of 90+ years, hourly ones of 4): grouped SPI
    with one group equals the ungrouped result and with two groups the per-group results, also for windows that
    start beyond position 32767."""
    import pandas as pd
    import xarray as xr
    sub = "long_axes"
    for n in (32767, 32768, 32769, 40000):
        t = np.arange(n)
        x = ((t * 7919) % 97 + (t % 5 == 0) * 40).astype("int16")
        x[(t % 11) == 3] = 0
        x[(t % 53) == 7] = ND
        time = pd.date_range("1900-01-01", periods=n, freq="D")
        da = xr.DataArray(x.reshape(1, 1, n), dims=("y", "x", "time"), coords={"time": time}, attrs={"nodata": ND})
        for kw_name, kw in (("whole axis", {}), ("late window", {"calibration_begin": str(time[n - 3000].date()), "calibration_end": str(time[n - 10].date())})):
            with warnings.catch_warnings():
                warnings.simplefilter("ignore")
                ref = da.hdc.algo.spi(**kw).values.reshape(n)
                for gname, g in (("one group", np.zeros(n, int)), ("two blocks", (t >= n // 2).astype(int)), ("two interleaved groups", t % 2)):
                    if gname != "one group" and kw:
                        continue
                    key = {"n": n, "window": kw_name, "groups": gname}
                    ctx.count(sub, evaluations=1, states=1, nontrivial=1)
                    try:
                        got = da.hdc.algo.spi(groups=g.tolist(), **kw).values.reshape(n)
                    except Exception as e:
                        ctx.violation(sub, key, {"kind": "long_axes"}, f"spi(groups=<{gname}>, {kw}) on a daily axis of {n} steps raised {type(e).__name__}: {e}")
                        continue
                    if gname == "one group":
                        exp = ref
                    else:
                        exp = np.empty(n, dtype=got.dtype)
                        for v in (0, 1):
                            m = np.nonzero(g == v)[0]
                            exp[m] = da.isel(time=m).hdc.algo.spi().values.reshape(-1)
                    if not np.array_equal(got, exp):
                        j = int(np.nonzero(got != exp)[0][0])
                        ctx.violation(sub, key, {"kind": "long_axes"},
                                      f"spi(groups=<{gname}>, {kw}) on a daily axis of {n} steps differs from the {'ungrouped' if gname == 'one group' else 'per-group'} "
                                      f"result at {int((got != exp).sum())} steps (first: step {j}, {int(got[j])} vs {int(exp[j])})")
    ctx.sample(sub, {"lengths": [32767, 32768, 32769, 40000], "groupings": ["one group", "two blocks", "two interleaved groups"], "windows": ["whole axis", "last 3000 steps"]})


def partitions_min2(n, maxk):
    out = []
    for lab in sse.set_partitions_labelings(n, maxk):
        counts = np.bincount(lab)
        if counts.min() >= 2:
            out.append(lab)
    return out


def run(ctx):
    st, ut = _mods()
    st.gammastd_yxt(PIX[:, :4].reshape(5, 1, 4), ND, 0, 4)
    st.gammastd_grp(PIX[:, :4], np.zeros(4, "int16"), 1, ND, np.array([[0, 4]], "int16"))
    sizes = (3, 4, 5, 6) if ctx.thorough() else (5,)
    axes = [c for s in sizes for c in itertools.combinations(range(9), s)]
    ctx.pmap(_ungrouped_task, axes)
    ctx.note("ungrouped_axes", len(axes))
    tod_axes = [(0, 2, 3, 5, 8), (0, 1, 2, 3, 4, 5), (1, 3, 4, 6, 7, 8), (0, 4, 8)] + ([c for c in itertools.combinations(range(9), 4)][::9] if ctx.thorough() else [])
    ctx.pmap(_tod_task, tod_axes)
    if ctx.thorough():
        gaxes = [tuple(range(6)), (0, 1, 3, 4, 7, 8), tuple(range(7)), (0, 2, 3, 4, 6, 7, 8), tuple(range(8)), tuple(range(9))]
        maxk = 4
    else:
        gaxes = [tuple(range(6)), (0, 1, 3, 4, 7, 8), (0, 2, 3, 4, 6, 7, 8)]
        maxk = 3
    tasks = []
    for ax in gaxes:
        labs = partitions_min2(len(ax), maxk)
        for chunk in sse.chunked(labs, 6):
            tasks.append((ax, chunk, maxk))
    ctx.pmap(_grouped_task, tasks)
    ctx.note("grouped_axes", [list(a) for a in gaxes])
    ctx.pmap(_sequence_task, [0])
    far_dates(ctx)
    direct(ctx)
    influence(ctx)
    long_axes(ctx)
    from . import spell_common
    spell_common.run(ctx, "C09")



def replay(sub, case, p):
    if case.get("kind") == "spelling":
        from . import spell_common
        spell_common.run(p, "C09")
        return
    if case["kind"] == "win":
        _ungrouped_task(tuple(case["axis"]), p)
    elif case["kind"] == "far":
        far_dates(p)
    elif case["kind"] == "seq":
        _sequence_task(0, p)
    elif case["kind"] == "tod":
        _tod_task(tuple(case["axis"]), p)
    elif case["kind"] == "long_axes":
        long_axes(p)
    elif case["kind"] == "influence":
        influence(p)
    elif case["kind"] == "grp":
        _grouped_task((tuple(case["axis"]), [tuple(case["labels"])], 4), p)
    else:
        direct(p)

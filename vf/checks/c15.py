"""C15 — lag-1 autocorrelation is a Pearson correlation with mean-filled gaps.

Model checking over the input trie: state = word over {ND, a, b, c} (every prefix of length >= 3 is an
input), transition = append one symbol; a streaming reference automaton carries the ten running sums
(exact integers) and is stepped along every edge; the real compiled kernels are run on every node.
Reference = Pearson correlation of s[:-1] and s[1:] with gaps replaced by the mean of the valid cells of
the respective vector, evaluated from the exact integer sums.
"""
from __future__ import annotations

import importlib
import math
from fractions import Fraction as F

import numpy as np

from .. import sse

LEVEL = "model_checking"
RULE = ("all words over {ND,a,b,c} of length 3..bound (trie); non-trivial = word with at least one missing cell, "
        "at least one valid pair and non-zero variance in both vectors")
ASSUMPTIONS = [
    "values compared to 1e-6 absolute (float32 output of the cube drivers: 1e-6 relative to 1)",
    "the reference is evaluated from exact integer sums; only the final square root is float64",
    "float records with decimal-fraction values (family fractional_floats): compared to 2e-5 absolute - the kernel's single-pass "
    "float sums leave a rounding residue where integer-valued data is exact (measured: up to 7.6e-6 on 900-step records) - "
    "and required to be finite and inside [-1, 1]",
]

TOL = 2e-6


def _ops():
    import hdc.algo  # noqa: F401
    return importlib.import_module("hdc.algo.ops")


def letters_for(seed):
    if seed == 0:
        return [0, 1, 5]
    rng = sse.seeded_rng(seed, "c15")
    return sorted(rng.sample(range(-3000, 10001), 3))


def ref_autocorr(vals, valid):
    """Vectorised exact reference. vals (N,n) int64 (anything at invalid cells), valid (N,n) bool.
    Returns float64 (N,) computed from exact integer sums (Python ints via object arrays when needed)."""
    N, n = vals.shape
    x, y = vals[:, :-1], vals[:, 1:]
    vx, vy = valid[:, :-1], valid[:, 1:]
    both = vx & vy
    xz, yz = np.where(vx, x, 0), np.where(vy, y, 0)
    nx, ny, nxy = vx.sum(1), vy.sum(1), both.sum(1)
    Sx, Sy = xz.sum(1), yz.sum(1)
    Sxx, Syy = (xz * xz).sum(1), (yz * yz).sum(1)
    Sx_, Sy_ = np.where(both, x, 0).sum(1), np.where(both, y, 0).sum(1)
    Sxy = np.where(both, x * y, 0).sum(1)
    # all quantities are exact in int64 for |v| <= 10000 and n <= ~1000 after scaling below:
    # C*nx*ny = nx*ny*Sxy - ny*Sx*Sy_ - nx*Sy*Sx_ + nxy*Sx*Sy ; Vx*nx = nx*Sxx - Sx^2
    out = np.zeros(N)
    for j in range(N):
        a, b, c = int(nx[j]), int(ny[j]), int(nxy[j])
        if c == 0 or a == 0 or b == 0:
            continue
        vxn = a * int(Sxx[j]) - int(Sx[j]) ** 2
        vyn = b * int(Syy[j]) - int(Sy[j]) ** 2
        if vxn == 0 or vyn == 0:
            continue
        cn = a * b * int(Sxy[j]) - b * int(Sx[j]) * int(Sy_[j]) - a * int(Sy[j]) * int(Sx_[j]) + c * int(Sx[j]) * int(Sy[j])
        # r = C / sqrt(Vx Vy) = (cn/(ab)) / sqrt(vxn/a * vyn/b) = cn / sqrt(a b vxn vyn)
        out[j] = cn / math.sqrt(a * b * vxn * vyn) if True else 0.0
    return out


def ref_autocorr_fast(vals, valid):
    """Same as ref_autocorr but vectorised with float64 at the end (exact int64 sums)."""
    x, y = vals[:, :-1].astype(np.int64), vals[:, 1:].astype(np.int64)
    vx, vy = valid[:, :-1], valid[:, 1:]
    both = vx & vy
    xz, yz = np.where(vx, x, 0), np.where(vy, y, 0)
    nx, ny, nxy = vx.sum(1).astype(np.int64), vy.sum(1).astype(np.int64), both.sum(1).astype(np.int64)
    Sx, Sy = xz.sum(1), yz.sum(1)
    Sxx, Syy = (xz * xz).sum(1), (yz * yz).sum(1)
    Sx_, Sy_ = np.where(both, x, 0).sum(1), np.where(both, y, 0).sum(1)
    Sxy = np.where(both, x * y, 0).sum(1)
    vxn = nx * Sxx - Sx * Sx
    vyn = ny * Syy - Sy * Sy
    cn = (nx * ny * Sxy - ny * Sx * Sy_ - nx * Sy * Sx_ + nxy * Sx * Sy).astype(np.float64)
    den = np.sqrt(nx.astype(np.float64) * ny * vxn.astype(np.float64) * vyn)
    ok = (nxy > 0) & (vxn > 0) & (vyn > 0)
    with np.errstate(all="ignore"):
        r = np.where(ok, cn / np.where(ok, den, 1.0), 0.0)
    return r, ok


def impl_int(vals16, nd):
    """autocorr (y,x,t driver) on int16 words as pixels."""
    o = _ops()
    N, n = vals16.shape
    return np.asarray(o.autocorr(vals16.reshape(N, 1, n), nd)).reshape(N).astype(np.float64)


def check_words(vals, valid, nd, p, sub, full=True):
    """vals (N,n) int64 with ND rendered as nd."""
    o = _ops()
    N, n = vals.shape
    ref, ok = ref_autocorr_fast(vals, valid)
    v16 = vals.astype("int16")
    got = impl_int(v16, nd)
    case = lambda j: {"kind": "ac", "word": vals[j].tolist(), "nd": nd}
    key = lambda j: {"kernel": "autocorr", "word": vals[j].tolist(), "nd": nd}
    bad = ~(np.abs(got - ref) <= TOL) | (np.abs(got) > 1 + 1e-6)
    for j in np.nonzero(bad)[0][:5]:
        p.violation(sub, key(j), case(j),
                    f"autocorr(int16 {vals[j].tolist()}, nodata={nd}) -> {got[j]:.6f}, mean-filled Pearson reference {ref[j]:.6f}")
    if full:
        # (t,y,x) driver
        got2 = np.asarray(o.autocorr_tyx(np.ascontiguousarray(v16.T.reshape(n, N, 1)), nd)).reshape(N).astype(np.float64)
        d = ~(np.abs(got2 - got) <= TOL)
        for j in np.nonzero(d)[0][:3]:
            p.violation(sub, dict(key(j), what="tyx"), case(j), f"autocorr_tyx gives {got2[j]:.6f} but autocorr gives {got[j]:.6f} for {vals[j].tolist()}")
        # float / NaN encoding
        vf = np.where(valid, vals, np.nan).astype(np.float64)
        got3 = np.asarray(o.autocorr(vf.reshape(N, 1, n))).reshape(N).astype(np.float64)
        d = ~(np.abs(got3 - got) <= TOL)
        for j in np.nonzero(d)[0][:3]:
            p.violation(sub, dict(key(j), what="float/NaN"), case(j),
                        f"float/NaN encoding gives {got3[j]:.6f} but int/nodata gives {got[j]:.6f} for {vals[j].tolist()}")
        vf32 = vf.astype(np.float32)
        got4 = np.asarray(o.autocorr_tyx(np.ascontiguousarray(vf32.T.reshape(n, N, 1)))).reshape(N).astype(np.float64)
        d = ~(np.abs(got4 - ref) <= 1e-5)
        for j in np.nonzero(d)[0][:3]:
            p.violation(sub, dict(key(j), what="float32/NaN tyx"), case(j),
                        f"float32/NaN (t,y,x) gives {got4[j]:.6f}, reference {ref[j]:.6f} for {vals[j].tolist()}")
    return got, ref, ok


def _trie_task(task, p):
    n, letters, nd = task
    k = 4
    idx = sse.word_indices(k, n)
    N = idx.shape[0]
    valid = idx != 0
    vals = sse.render(idx, [nd] + letters).astype(np.int64)
    sub = "trie"
    got, ref, ok = check_words(vals, valid, nd, p, sub, full=(n <= 8))
    p.count(sub, evaluations=N, states=N, transitions=N, traces_validated_against_impl=N,
            nontrivial=int((ok & (~valid).any(axis=1)).sum()))
    # affine invariance on the same words (valid cells only; placeholder unchanged)
    for alpha, beta in ((2, 0), (1, 100), (3, -50)):
        v2 = np.where(valid, vals * alpha + beta, nd)
        if np.abs(v2).max() > 32000 or (np.where(valid, v2, nd + 1) == nd).any():
            continue
        g2 = impl_int(v2.astype("int16"), nd)
        d = ~(np.abs(g2 - got) <= TOL)
        p.count("affine", evaluations=N, nontrivial=int(ok.sum()))
        for j in np.nonzero(d)[0][:3]:
            p.violation("affine", {"kernel": "autocorr", "word": vals[j].tolist(), "map": [alpha, beta]},
                        {"kind": "affine", "word": vals[j].tolist(), "nd": nd, "map": [alpha, beta]},
                        f"autocorr changes under x -> {alpha}x+{beta}: {got[j]:.6f} vs {g2[j]:.6f} for {vals[j].tolist()}")
    # oracle cross-check: vectorised reference vs exact big-integer reference on a sub-slice
    sl = slice(0, N, 97)
    r2 = ref_autocorr(vals[sl], valid[sl])
    assert np.abs(r2 - ref[sl]).max() < 1e-12, "reference self-check failed"
    p.count("oracle_crosscheck", evaluations=len(r2))
    if n == 5:
        names = ["ND"] + [str(v) for v in letters]
        p.sample(sub, {"word": [names[t] for t in idx[333]], "autocorr": float(got[333]), "reference": float(ref[333])})


def _offset_task(task, p):
    """Large level, small spread: values 30000 + {0,1,5}.  Sums of squares are ~1e9 per cell; any single-precision
    product or accumulator shows here and nowhere else."""
    n, nd = task
    idx = sse.word_indices(4, n)
    valid = idx != 0
    vals = sse.render(idx, [nd, 30000, 30001, 30005]).astype(np.int64)
    check_words(vals, valid, nd, p, "large_offset", full=True)
    p.count("large_offset", evaluations=idx.shape[0], states=idx.shape[0], traces_validated_against_impl=idx.shape[0], nontrivial=idx.shape[0])
    if n == 5:
        p.sample("large_offset", {"alphabet": ["ND", 30000, 30001, 30005], "n": n})


def plateaus(ctx, nd):
    """Nearly flat records on a high level: constant except for a few cells one count higher.  The variance is
    tiny relative to the mean square (down to 1e-12) but not zero, so the correlation is defined."""
    sub = "plateaus"
    rows, vs = [], []
    for level in (10000, 30000, 32000):
        for n in (30, 100, 900):
            t = np.arange(n)
            for bumps in ([n // 2], [n // 3, n // 3 + 1], [3, n // 2, n - 4], list(range(n // 4, n // 4 + 5))):
                x = np.full(n, level, dtype=np.int64)
                x[bumps] += 1
                for gap in (None, (5, 12), (n - 9, n - 2), (0, 1), (0, 5)):      # also a record that starts with missing cells
                    v = np.ones(n, bool)
                    if gap:
                        v[gap[0]:gap[1]] = False
                    rows.append((n, np.where(v, x, nd), v))
                # the first valid sample far away from the plateau (the kernels shift by it): the spread about that
                # sample is huge, the variance of the record is still that of the bumps
                for first in (0, -15000, level - 9000):
                    for lead in (0, 3):
                        x2 = x.copy()
                        x2[lead] = first
                        v = np.ones(n, bool)
                        v[:lead] = False
                        rows.append((n, np.where(v, x2, nd), v))
    for n in sorted({r[0] for r in rows}):
        sel = [r for r in rows if r[0] == n]
        vals = np.array([r[1] for r in sel])
        valid = np.array([r[2] for r in sel])
        check_words(vals, valid, nd, ctx, sub, full=True)
        ctx.count(sub, evaluations=len(sel), nontrivial=len(sel), states=len(sel), traces_validated_against_impl=len(sel))
    ctx.sample(sub, {"levels": [10000, 30000, 32000], "lengths": [30, 100, 900], "bumps": "1, 2, 3 or 5 cells one count higher"})


FTOL = 2e-5


def fractional_floats(ctx):
    """Float / NaN records whose values are decimal fractions (0.2051, 0.7257, ...: not exactly representable, so
    the running sums carry rounding residue where integer-valued data is exact).  (a) every word of length 3..bound
    over {NaN, 0.2051, 0.7257, 0.5, 0.3333}, float64 and float32, both drivers; the reference is the exact one on the
    words scaled by 10^4 (the correlation is scale-free; which vectors are flat is the same question).  (b) records
    that are flat after their first sample - the lag vector has no variance - for lengths up to 900, with gaps, on
    levels up to the int16 range: the result must be 0 to FTOL, finite and inside [-1, 1]."""
    o = _ops()
    sub = "fractional_floats"
    letters = [2051, 7257, 5000, 3333]
    maxn = 7 if ctx.thorough() else 6
    for n in range(3, maxn + 1):
        idx = sse.word_indices(5, n)
        ints = sse.render(idx, [0] + letters).astype(np.int64)
        valid = idx != 0
        ref, ok = ref_autocorr_fast(ints, valid)
        N = idx.shape[0]
        for dt in ("float64", "float32"):
            vf = np.where(valid, ints / 10000.0, np.nan).astype(dt)
            outs = {"autocorr": np.asarray(o.autocorr(vf.reshape(N, 1, n))).reshape(N).astype(np.float64),
                    "autocorr_tyx": np.asarray(o.autocorr_tyx(np.ascontiguousarray(vf.T.reshape(n, N, 1)))).reshape(N).astype(np.float64)}
            for nm, got in outs.items():
                bad = ~(np.abs(got - ref) <= FTOL) | ~(np.abs(got) <= 1 + 1e-6)
                ctx.count(sub, evaluations=N, states=N, traces_validated_against_impl=N, nontrivial=int((ok & ~valid.all(1)).sum()))
                for j in np.nonzero(bad)[0][:3]:
                    w = [None if not v else float(x) for x, v in zip(vf[j].tolist(), valid[j])]
                    ctx.violation(sub, {"kernel": nm, "dtype": dt, "word": w}, {"kind": "frac"},
                                  f"{nm}({dt} {w}) -> {got[j]!r}, mean-filled Pearson reference {ref[j]:.6f}")
    rows = []
    for n in (3, 4, 5, 8, 30, 100, 900):
        for a in (0.0, 0.5, 0.1234, 0.9999, 7.0, 1234.5678, -3000.7, 32767.0):
            for c in (0.2051, 0.7257, 0.0301, 3.3, 100.1, 10000.2051, 32000.9, -0.3):
                for gap in (None, (2, 4), (n // 2, n // 2 + 3)):
                    if gap and (n < 8 or gap[1] >= n):
                        continue
                    x = np.full(n, c)
                    x[0] = a
                    if gap:
                        x[gap[0]:gap[1]] = np.nan
                    rows.append(x)
    for x in rows:
        for dt in ("float64", "float32"):
            xx = x.astype(dt)
            got = float(o.autocorr_1d(xx))
            ctx.count(sub, evaluations=1, states=1, traces_validated_against_impl=1, nontrivial=1)
            if not (abs(got) <= FTOL):
                ctx.violation(sub, {"kernel": "autocorr_1d", "dtype": dt, "n": len(x), "first": float(x[0]), "level": float(x[1]), "gaps": int(np.isnan(x).sum())},
                              {"kind": "frac"},
                              f"autocorr_1d({dt} record of {len(x)} steps: first sample {x[0]}, then constant {x[1]}, {int(np.isnan(x).sum())} missing) -> {got!r}; "
                              f"the lag vector has no variance, 0 is required")
    ctx.sample(sub, {"alphabet": [None, 0.2051, 0.7257, 0.5, 0.3333], "max_len": maxn, "flat_after_first": len(rows), "tolerance": FTOL})


def long_records(ctx, nd):
    """Deterministic 900-step records with contiguous outages covering 10..90 %."""
    sub = "long_records"
    n = 900
    t = np.arange(n)
    base = np.round(4000 + 3000 * np.sin(t / 36 * 2 * np.pi) + 800 * np.sin(t / 7.3) + ((t * 7919) % 401 - 200)).astype(np.int64)
    rows, vs = [], []
    for frac in (0.1, 0.3, 0.5, 0.7, 0.9):
        L = int(n * frac)
        for start in (0, (n - L) // 2, n - L):
            v = np.ones(n, bool)
            v[start:start + L] = False
            rows.append(np.where(v, base, nd)); vs.append(v)
        v = (t * 13) % 10 >= int(frac * 10)
        rows.append(np.where(v, base, nd)); vs.append(v)
    vals, valid = np.array(rows), np.array(vs)
    check_words(vals, valid, nd, ctx, sub, full=True)
    ctx.count(sub, evaluations=len(vals), nontrivial=len(vals), states=len(vals), traces_validated_against_impl=len(vals))
    ctx.sample(sub, {"n": n, "outages": "contiguous 10..90% at start/middle/end and scattered"})


def accessor(ctx, letters, nd):
    import warnings
    import pandas as pd
    import xarray as xr
    sub = "accessor"
    n = 6
    idx = sse.word_indices(4, n)
    N = idx.shape[0]
    valid = idx != 0
    vals = sse.render(idx, [nd] + letters).astype("int16")
    ref, ok = ref_autocorr_fast(vals.astype(np.int64), valid)
    time = pd.date_range("2000-01-01", periods=n, freq="10D")
    yxt = xr.DataArray(vals.reshape(64, 64, n), dims=("y", "x", "time"), coords={"time": time}, attrs={"nodata": nd})
    tyx = yxt.transpose("time", "y", "x")
    variants = {
        "yxt numpy": yxt, "tyx numpy": tyx,
        "yxt dask": yxt.chunk({"y": 16, "x": 64, "time": -1}),
        "tyx dask": tyx.chunk({"time": -1, "y": 16, "x": 32}),
        "tyx dask time-chunked": tyx.chunk({"time": 2, "y": 32, "x": 64}),
    }
    with warnings.catch_warnings():
        warnings.simplefilter("ignore")
        for name, da in variants.items():
            res = da.hdc.algo.autocorr()
            got = np.asarray(res.transpose("y", "x").values).reshape(N).astype(np.float64)
            ctx.count(sub, evaluations=N, nontrivial=int(ok.sum()) if name == "yxt numpy" else 0)
            bad = ~(np.abs(got - ref) <= 1e-5)
            if res.dtype != np.float32:
                ctx.violation(sub, {"accessor": "autocorr", "variant": name, "what": "dtype"}, {"kind": "acc", "variant": name}, f"autocorr() [{name}] dtype {res.dtype}")
            for j in np.nonzero(bad)[0][:3]:
                ctx.violation(sub, {"accessor": "autocorr", "variant": name, "word": vals[j].tolist()}, {"kind": "acc", "variant": name},
                              f"hdc.algo.autocorr() [{name}] pixel {vals[j].tolist()} -> {got[j]:.6f}, reference {ref[j]:.6f}")
        # nodata = 0 given as attribute (a falsy marker): zeros are gaps, not observations
        idz = sse.word_indices(4, n)
        valz = sse.render(idz, [0, 1, 2, 5]).astype("int16")
        refz, okz = ref_autocorr_fast(valz.astype(np.int64), idz != 0)
        dz = xr.DataArray(valz.reshape(64, 64, n), dims=("y", "x", "time"), coords={"time": time}, attrs={"nodata": 0})
        for name, da in (("nodata=0 yxt numpy", dz), ("nodata=0 tyx numpy", dz.transpose("time", "y", "x")),
                         ("nodata=0 yxt dask", dz.chunk({"y": 16, "x": 64, "time": -1})), ("nodata=0 tyx dask", dz.transpose("time", "y", "x").chunk({"time": -1, "y": 32, "x": 16}))):
            got = np.asarray(da.hdc.algo.autocorr().transpose("y", "x").values).reshape(N).astype(np.float64)
            ctx.count(sub, evaluations=N, nontrivial=int(okz.sum()) if name.endswith("yxt numpy") else 0)
            bad = ~(np.abs(got - refz) <= 1e-5)
            for j in np.nonzero(bad)[0][:3]:
                ctx.violation(sub, {"accessor": "autocorr", "variant": name, "word": valz[j].tolist()}, {"kind": "acc", "variant": name},
                              f"hdc.algo.autocorr() [{name}] pixel {valz[j].tolist()} (0 = nodata) -> {got[j]:.6f}, reference {refz[j]:.6f}")
        # float data with NaN and no nodata attribute
        vf = np.where(valid, vals, np.nan).astype("float32")
        daf = xr.DataArray(vf.reshape(64, 64, n), dims=("y", "x", "time"), coords={"time": time})
        for name, da in (("float yxt", daf), ("float tyx", daf.transpose("time", "y", "x"))):
            got = np.asarray(da.hdc.algo.autocorr().transpose("y", "x").values).reshape(N).astype(np.float64)
            ctx.count(sub, evaluations=N)
            bad = ~(np.abs(got - ref) <= 1e-5)
            for j in np.nonzero(bad)[0][:3]:
                ctx.violation(sub, {"accessor": "autocorr", "variant": name, "word": vals[j].tolist()}, {"kind": "acc", "variant": name},
                              f"hdc.algo.autocorr() [{name}] pixel {vf[j].tolist()} -> {got[j]:.6f}, reference {ref[j]:.6f}")
    ctx.sample(sub, {"cube": "all 4096 words of length 6", "variants": list(variants) + ["float yxt", "float tyx"]})


def attr_histories(ctx):
    """autocorr() on one long-lived object whose nodata attribute is edited in place between calls, both layouts."""
    import pandas as pd
    import xarray as xr
    from .. import histories
    sub = "attr_histories"
    n = 6
    time = pd.date_range("2000-01-01", periods=n, freq="10D")
    rows = [[3, 1, 4, 1, 5, 9], [0, 5, 0, 5, 2, 30], [-1, 2, 5, -1, 30, 1], [5, 5, 2, 9, 5, 1], [0, 0, 3, 8, 0, 2], [-1, -1, 0, 5, 0, 5]]
    data = np.array(rows).astype("int16").reshape(2, 3, n)
    for layout in ("yxt", "tyx"):
        def make():
            da = xr.DataArray(data.copy(), dims=("y", "x", "time"), coords={"time": time})
            return da if layout == "yxt" else da.transpose("time", "y", "x")

        def op(da):
            return np.asarray(da.hdc.algo.autocorr().values).copy()

        h = histories.explore(make, "nodata", [histories.ABSENT, -1, 0, 5], op, lambda a, b: np.array_equal(a, b, equal_nan=True), 3, ctx, sub, f"autocorr[{layout}]")
        ctx.note_add("attr_histories", h)
    ctx.sample(sub, {"attr": "nodata", "values": ["<absent>", -1, 0, 5], "depth": 3, "pixels": rows})


def run(ctx):
    o = _ops()
    letters = letters_for(ctx.seed)
    nd = -1 if ctx.seed == 0 else -9999
    z = np.zeros((1, 1, 3), "int16")
    o.autocorr(z, nd); o.autocorr(z.astype("float64")); o.autocorr_tyx(np.zeros((3, 1, 1), "int16"), nd)
    o.autocorr_tyx(np.zeros((3, 1, 1), "float32"))
    maxn = 10 if ctx.thorough() else 9
    ctx.pmap(_trie_task, [(n, letters, nd) for n in range(maxn, 2, -1)])
    ctx.pmap(_offset_task, [(n, -9999) for n in range(8 if ctx.thorough() else 7, 2, -1)])
    ctx.note("alphabet", ["ND"] + letters)
    ctx.note("nodata", nd)
    ctx.note("max_len", maxn)
    long_records(ctx, -9999)
    plateaus(ctx, -9999)
    fractional_floats(ctx)
    accessor(ctx, letters, nd)
    attr_histories(ctx)


def replay(sub, case, p):
    if case["kind"] in ("ac", "affine"):
        vals = np.asarray([case["word"]], dtype=np.int64)
        valid = vals != case["nd"]
        got, ref, ok = check_words(vals, valid, case["nd"], p, sub, full=True)
        if case["kind"] == "affine":
            a, b = case["map"]
            g2 = impl_int(np.where(valid, vals * a + b, case["nd"]).astype("int16"), case["nd"])
            if not abs(g2[0] - got[0]) <= TOL:
                p.violation(sub, {}, case, f"affine map changes the value: {got[0]} vs {g2[0]}")
    elif case["kind"] == "attr_history":
        attr_histories(p)
    elif case["kind"] == "frac":
        p.thorough = lambda: False
        fractional_floats(p)
    else:
        accessor(p, letters_for(0), -1)

"""C02 — missing observations carry zero weight in every smoother.

Bounded exhaustive differential exploration: every word over {ND, lo, mid, hi} of length 4..7 (8)
is rendered under every placeholder encoding (nodata below / inside / above the data range, NaN,
+inf, -inf) and pushed through all eight smoother variants on a parameter grid; output and the
selected lambda must be identical across encodings, the band must equal the fixed-lambda smoother
at the reported lambda (whose gap-filled values are decided against the reference curve in C03),
and pixels with too few valid cells must pass through unchanged with lambda 0.
"""
from __future__ import annotations

import itertools

import numpy as np

from .. import sse
from . import whit_common as wc
from . import c03

LEVEL = "exploration"
RULE = ("all words over {ND,lo,mid,hi} x placeholder encodings x 8 smoother variants x parameter grid; "
        "non-trivial = word with >= 1 missing cell and enough valid cells for the variant; distinct = "
        "(word, variant, parameters)")
ASSUMPTIONS = [
    "bit-exact agreement across encodings is demanded (zero weights annihilate the placeholder exactly); "
    "-0.0 and +0.0 are not distinguished because outputs are int16",
    "NaN / inf placeholders are only claimed for the fixed-lambda and cross-validation smoothers, as the statement says",
]

SR = {
    "a": np.arange(-2.0, 2.0),
    "b": np.arange(-2.0, 1.2, 0.2),
    "default": np.arange(-1.8, 4.2, 0.2),
    "c": np.arange(0.0, 3.2, 0.2),          # a grid whose first lambda is 1: the sweep's cold start (from the zero curve) is slow there
}


def combos(thorough=False):
    out = []
    for lam in (0.1, 10.0, 1000.0):
        out.append(("ws2dgu", dict(lam=lam)))
        for p in (0.1, 0.9):
            out.append(("ws2dpgu", dict(lam=lam, p=p)))
    for sr in ("a", "b", "default"):
        out.append(("ws2doptv", dict(srange=sr)))
        for p in (0.1, 0.9):
            out.append(("ws2doptvp", dict(srange=sr, p=p)))
        for robust in (False, True):
            out.append(("ws2dwcv", dict(srange=sr, robust=robust)))
            for p in (0.1, 0.9):
                out.append(("ws2dwcvp", dict(srange=sr, robust=robust, p=p)))
    for p in (0.1, 0.9):
        for lc in (0.2, 0.9):
            out.append(("ws2doptvplc", dict(p=p, lc=lc)))
    return out


def min_valid(variant):
    return 5 if variant.startswith("ws2dwcv") else 2


def encodings_for(variant):
    if variant in ("ws2dgu", "ws2dpgu", "ws2dwcv", "ws2dwcvp"):
        return wc.ENCODINGS + wc.SELF_DECLARED
    return wc.ENCODINGS[:4]


def run_variant(variant, y, nd, params):
    kw = dict(params)
    if "srange" in kw:
        kw["srange"] = SR[kw["srange"]]
    return wc.call_variant(variant, y, nd, **kw)


def check_batch(variant, params, idx, letters, p):
    """All encodings of a batch of words through one variant/parameter point."""
    valid = idx != 0
    N, n = idx.shape
    nvalid = valid.sum(axis=1)
    enough = nvalid >= min_valid(variant)
    results = {}
    key_base = {"variant": variant, "params": {k: v for k, v in params.items()}}
    for enc in encodings_for(variant):
        y, nd = wc.encode(idx, letters, enc)
        try:
            out, lopt = run_variant(variant, y, nd, params)
        except Exception as e:
            # find one failing word
            culprit = None
            for j in range(N):
                try:
                    run_variant(variant, y[j:j + 1], nd, params)
                except Exception:
                    culprit = j
                    break
            j = culprit if culprit is not None else 0
            p.violation("raises", dict(key_base, enc=enc, word=idx[j].tolist()),
                        {"kind": "enc", "variant": variant, "params": params, "idx": idx[j].tolist(), "letters": letters},
                        f"{variant}{params} raised {type(e).__name__}: {e} on word {_w(idx[j], letters)} with missing cells encoded as {enc}")
            continue
        results[enc] = (out, lopt, y, nd)
        p.count("encodings", evaluations=N)
        # too few valid cells: passthrough, lambda 0 (only where the placeholder is int16-representable)
        if enc in ("below", "inside", "above", "zero") and (~enough).any():
            few = ~enough
            bad = (out[few] != y[few].astype(np.int16)).any(axis=1)
            if lopt is not None:
                bad |= lopt[few] != 0
            p.count("too_few", evaluations=int(few.sum()), nontrivial=int(few.sum()) if enc == "below" else 0)
            for j in np.nonzero(few)[0][np.nonzero(bad)[0][:3]]:
                p.violation("too_few", dict(key_base, enc=enc, word=idx[j].tolist()),
                            {"kind": "enc", "variant": variant, "params": params, "idx": idx[j].tolist(), "letters": letters},
                            f"{variant}{params}: word {_w(idx[j], letters)} has {int(nvalid[j])} valid cells (< {min_valid(variant)}) "
                            f"but was not returned unchanged with lambda 0: out={out[j].tolist()} lopt={None if lopt is None else float(lopt[j])}")
    if "below" not in results:
        return
    out0, lopt0, y0, nd0 = results["below"]
    p.count("encodings", nontrivial=int((enough & (~valid).any(axis=1)).sum()))
    for enc, (out, lopt, y, nd) in results.items():
        if enc == "below":
            continue
        diff = (out != out0).any(axis=1)
        if lopt is not None:
            diff |= ~((lopt == lopt0) | (np.isnan(lopt) & np.isnan(lopt0)))
        diff &= enough
        for j in np.nonzero(diff)[0][:3]:
            p.violation("encodings", dict(key_base, enc=enc, word=idx[j].tolist()),
                        {"kind": "enc", "variant": variant, "params": params, "idx": idx[j].tolist(), "letters": letters},
                        f"{variant}{params}: word {_w(idx[j], letters)}: result depends on the placeholder: "
                        f"nodata={nd0} -> {out0[j].tolist()} lopt={None if lopt0 is None else float(lopt0[j])}; "
                        f"missing cells as {enc} (nodata arg {nd}) -> {out[j].tolist()} lopt={None if lopt is None else float(lopt[j])}")
    # zero weight at a missing cell means (lambda D'D z)_i = w_i (y_i - z_i) = 0 there: the fourth difference of the
    # fitted curve vanishes at every missing cell, whatever weights (asymmetric, robust) the valid cells carry.
    # On the int16 output each cell is off by at most 0.5, so |(D'D out)_i| <= 0.5 * sum_j |D'D_ij|.
    gaps = enough[:, None] & ~valid
    if gaps.any():
        from ..oracle import pls
        P = pls.dtd(n).astype(np.float64)
        bound = 0.5 * np.abs(P).sum(axis=1) + 1e-6
        c4 = out0.astype(np.float64) @ P.T
        badg = gaps & (np.abs(c4) > bound[None, :])
        p.count("gap_curvature", evaluations=int(gaps.any(axis=1).sum()), nontrivial=int(gaps.any(axis=1).sum()))
        for j in np.nonzero(badg.any(axis=1))[0][:3]:
            i = int(np.nonzero(badg[j])[0][0])
            p.violation("gap_curvature", dict(key_base, word=idx[j].tolist()),
                        {"kind": "enc", "variant": variant, "params": params, "idx": idx[j].tolist(), "letters": letters},
                        f"{variant}{params}: word {_w(idx[j], letters)} -> {out0[j].tolist()}: the missing cell at position {i} influences the curve "
                        f"(fourth difference {c4[j, i]:.1f} there, at most {bound[i]:.1f} possible for a zero-weight cell)")
    # gap filling: band equals the fixed-lambda smoother at the reported lambda (bit-exact by construction)
    if lopt0 is not None and not params.get("robust"):
        sel = enough
        if sel.any():
            pp = params.get("p")
            fixed = "ws2dgu" if pp is None else "ws2dpgu"
            exp, _ = wc.call_variant(fixed, y0[sel], nd0, lam=lopt0[sel], p=pp)
            bad = (exp != out0[sel]).any(axis=1)
            p.count("gapfill_selfconsistency", evaluations=int(sel.sum()), nontrivial=int((sel & (~valid).any(axis=1)).sum()))
            for j in np.nonzero(sel)[0][np.nonzero(bad)[0][:3]]:
                p.violation("gapfill_selfconsistency", dict(key_base, word=idx[j].tolist()),
                            {"kind": "enc", "variant": variant, "params": params, "idx": idx[j].tolist(), "letters": letters},
                            f"{variant}{params}: word {_w(idx[j], letters)}: band {out0[j].tolist()} is not the fixed-lambda smoother "
                            f"at the reported lambda {float(lopt0[j])!r}")
    elif lopt0 is None:
        # fixed-lambda variants: every cell (gaps included) against the reference curve
        sel = enough
        c03.check_fixed(variant, y0[sel], valid[sel], nd0, params["lam"], params.get("p"), p, "gapfill_reference")


def _w(row, letters):
    names = ["ND"] + [str(v) for v in letters]
    return "[" + ",".join(names[i] for i in row) + "]"


def _task(task, p):
    n, lo, hi, variant, params, letters = task
    idx, _ = wc.words(n)
    idx = idx[lo:hi]
    check_batch(variant, params, idx, letters, p)
    if n == 5 and lo == 0:
        p.sample("encodings", {"variant": variant, "params": params, "word": _w(idx[37], letters),
                               "encodings": encodings_for(variant)})


def accessor(ctx, letters):
    """The same differential at accessor level: cubes whose pixels are the words."""
    import pandas as pd
    import xarray as xr
    sub = "accessor"
    n = 6
    idx, valid = wc.words(n)
    N = idx.shape[0]  # 4096 = 64x64
    time = pd.date_range("2001-01-01", periods=n, freq="10D")

    def cube(enc, dtype):
        y, nd = wc.encode(idx, letters, enc)
        da = xr.DataArray(y.astype(dtype).reshape(64, 64, n), dims=("y", "x", "time"),
                          coords={"time": time, "y": np.arange(64), "x": np.arange(64)})
        return da, nd

    calls = [
        ("whits(s=10)", lambda da, nd: da.hdc.whit.whits(nodata=nd, s=10.0), 2, True),
        ("whits(s=10,p=0.9)", lambda da, nd: da.hdc.whit.whits(nodata=nd, s=10.0, p=0.9), 2, True),
        ("whitsvc(srange)", lambda da, nd: da.hdc.whit.whitsvc(nodata=nd, srange=SR["b"]), 2, False),
        ("whitsvc(srange,p)", lambda da, nd: da.hdc.whit.whitsvc(nodata=nd, srange=SR["b"], p=0.9), 2, False),
        ("whitswcv(robust=False)", lambda da, nd: da.hdc.whit.whitswcv(nodata=nd, robust=False), 5, True),
        ("whitswcv(default)", lambda da, nd: da.hdc.whit.whitswcv(nodata=nd), 5, True),
        ("whitswcv(p=0.9)", lambda da, nd: da.hdc.whit.whitswcv(nodata=nd, p=0.9), 5, True),
    ]
    for name, fn, minv, special in calls:
        enough = valid.sum(axis=1) >= minv
        base = None
        encs = [("below", "int16"), ("inside", "int16"), ("above", "int16"), ("zero", "int16"), ("zero+attr", "int16")]
        if special:
            encs += [("nan", "float64"), ("+inf", "float64"), ("-inf", "float32")]
        for enc, dtype in encs:
            da, nd = cube("zero" if enc == "zero+attr" else enc, dtype)
            if enc == "zero+attr":
                # the nodata argument of the call wins over whatever the attribute says
                da = da.assign_attrs(nodata=-9999)
            try:
                with np.errstate(all="ignore"):
                    res = fn(da, nd)
                if isinstance(res, xr.Dataset):
                    band = res["band"].values.reshape(N, n)
                    sg = res["sgrid"].values.reshape(N)
                else:
                    band = res.values.reshape(N, n)
                    sg = None
            except Exception as e:
                ctx.violation(sub, {"call": name, "enc": enc}, {"kind": "acc", "call": name, "enc": enc},
                              f"{name} raised {type(e).__name__}: {e} with missing cells encoded as {enc}")
                continue
            ctx.count(sub, evaluations=N, nontrivial=int((enough & (~valid).any(axis=1)).sum()) if enc == "below" else 0)
            if base is None:
                base = (band, sg)
                continue
            diff = (band != base[0]).any(axis=1)
            if sg is not None:
                diff |= ~((sg == base[1]) | (np.isnan(sg) & np.isnan(base[1])))
            diff &= enough
            if diff.any():
                j = int(np.nonzero(diff)[0][0])
                ctx.violation(sub, {"call": name, "enc": enc, "word": idx[j].tolist()},
                              {"kind": "acc", "call": name, "enc": enc},
                              f"{name}: pixel {_w(idx[j], letters)}: result with missing cells as {enc} {band[j].tolist()} "
                              f"differs from nodata-below result {base[0][j].tolist()} ({int(diff.sum())} pixels differ)")
    ctx.sample(sub, {"cube": "all 4096 words of length 6 as 64x64 pixels", "calls": [c[0] for c in calls]})


def run(ctx):
    wc.compile_all()
    letters = wc.letters_for(ctx.seed)
    maxn = 8 if ctx.thorough() else 7
    tasks = []
    for n in range(maxn, 3, -1):
        total = 4 ** n
        step = 4096
        for variant, params in combos():
            for lo in range(0, total, step):
                tasks.append((n, lo, min(total, lo + step), variant, params, letters))
    ctx.pmap(_task, tasks)
    ctx.note("letters", letters)
    ctx.note("max_len", maxn)
    ctx.note("variant_parameter_points", len(combos()))
    accessor(ctx, letters)


def replay(sub, case, p):
    if case["kind"] == "enc":
        idx = np.asarray([case["idx"]], dtype=np.int8)
        check_batch(case["variant"], case["params"], idx, case["letters"], p)
    else:
        accessor(p, wc.letters_for(0))

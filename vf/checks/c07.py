"""C07 — SPI equals the gamma-MLE / zero-mixture / normal-quantile definition.

Bounded exhaustive product: every word over {ND, 0, 1, 2, 7, 30} of length 3..6 (7) x every calibration
window [i, j) with j - i >= 2, through gammastd_yxt (int16, float64), gammastd_grp (int16, float32; one
group) and DataArray.hdc.algo.spi(); plus a deterministic quantile-grid family (shapes 0.05..500, scales
0.1..1e4, n up to 400, zeros, ties).  Oracle: independent SciPy evaluation of the definition with an
interval for the fitted shape (interval oracle for float32 inputs).
"""
from __future__ import annotations

import importlib
import itertools

import numpy as np
import scipy.special as sc

from .. import sse
from ..oracle import spi as O

LEVEL = "exploration"
RULE = ("words x calibration windows x entry points; a case is in the claim when the pixel has <= 90% zeros and the "
        "window holds >= 2 distinct positive values; non-trivial = in-claim case with at least one zero or nodata cell "
        "or a window that is a proper sub-window; distinct = (word, window, entry point)")
ASSUMPTIONS = [
    "the fitted shape is allowed a relative interval of 1e-9 (int16 / float64 inputs) or the bound implied by "
    "single-precision logarithms (float32 inputs); every integer between the rounded interval ends is admissible",
    "indices with |SPI| > 7000 are left to C08",
]

ND = -9999
LETTERS = [0, 1, 2, 7, 30]


def _st():
    import hdc.algo  # noqa: F401
    return importlib.import_module("hdc.algo.ops.stats")


def letters_for(seed):
    if seed == 0:
        return LETTERS
    rng = sse.seeded_rng(seed, "c07")
    pos = sorted(rng.sample(range(1, 400), 4))
    return [0] + pos


def expected_table(idx, letters, i, j, rel_f32=False):
    """Per word: (lo, hi, center) arrays (N,n) of admissible indices, mask in_claim (N,), mask valid."""
    N, n = idx.shape
    k = len(letters) + 1
    valid = idx != 0
    nv = valid.sum(axis=1)
    nz = (idx == 1).sum(axis=1)
    cal = idx[:, i:j]
    counts = np.stack([(cal == s).sum(axis=1) for s in range(2, k)], axis=1)  # positive letters
    code = nz * 1000 + nv * 10 ** 5
    for c in range(counts.shape[1]):
        code = code * 10 + counts[:, c]
    lo = np.zeros((N, n)); hi = np.zeros((N, n)); ce = np.zeros((N, n))
    claim = np.zeros(N, bool)
    uniq, inv = np.unique(code, return_inverse=True)
    lvals = np.array(letters, dtype=np.float64)
    for u in range(len(uniq)):
        rows = np.nonzero(inv == u)[0]
        r0 = rows[0]
        if nv[r0] == 0:
            continue
        p0 = nz[r0] / nv[r0]
        if p0 > 0.9:
            continue
        pos = []
        for c in range(counts.shape[1]):
            pos += [letters[c + 1]] * int(counts[r0, c])
        if len(set(pos)) < 2:
            continue
        fit = O.mle(pos)
        if fit is None:
            continue
        rel = 1e-9
        if rel_f32:
            ds = 3e-7 * (max(abs(np.log(np.array(pos, dtype=float)))) + 1)
            rel = 2 * ds / fit[2] + 1e-9
        l, h, c = O.admissible(lvals, fit, p0, rel)
        claim[rows] = True
        sym = idx[rows] - 1
        symc = np.clip(sym, 0, None)
        lo[rows] = l[symc]; hi[rows] = h[symc]; ce[rows] = c[symc]
    return lo, hi, ce, claim, valid


def compare(out, idx, letters, i, j, entry, p, sub, rel_f32=False):
    N, n = idx.shape
    lo, hi, ce, claim, valid = expected_table(idx, letters, i, j, rel_f32)
    o = out.astype(np.float64)
    decided = claim[:, None] & valid & (np.abs(ce) <= 7000)
    bad = decided & ((o < lo) | (o > hi))
    # nodata cells of in-claim pixels must come back as nodata
    bad_nd = claim[:, None] & ~valid & (o != ND)
    names = ["ND"] + [str(v) for v in letters]
    for r in np.nonzero((bad | bad_nd).any(axis=1))[0][:5]:
        word = [ND if s == 0 else letters[s - 1] for s in idx[r]]
        p.violation(sub, {"entry": entry, "word": word, "window": [i, j]},
                    {"kind": "spi", "entry": entry, "idx": idx[r].tolist(), "letters": letters, "window": [i, j]},
                    f"{entry}: SPI of {word} with calibration window [{i},{j}) -> {out[r].tolist()}, admissible "
                    f"[{lo[r].astype(int).tolist()} .. {hi[r].astype(int).tolist()}] (nodata cells must stay {ND})")
    nontriv = claim & ((idx <= 1).any(axis=1) | (j - i < n))
    return int(claim.sum()), int(nontriv.sum()), int((claim[:, None] & valid & (np.abs(ce) > 7000)).sum())


def run_entry(entry, x, i, j):
    st = _st()
    N, n = x.shape
    if entry == "yxt_i16":
        return np.asarray(st.gammastd_yxt(x.astype("int16").reshape(N, 1, n), ND, i, j)).reshape(N, n)
    if entry == "yxt_f64":
        return np.asarray(st.gammastd_yxt(x.astype("float64").reshape(N, 1, n), ND, i, j)).reshape(N, n)
    g = np.zeros(n, dtype="int16")
    ci = np.array([[i, j]], dtype="int16")
    if entry == "grp_i16":
        return np.asarray(st.gammastd_grp(x.astype("int16"), g, 1, ND, ci))
    if entry == "grp_f32":
        return np.asarray(st.gammastd_grp(x.astype("float32"), g, 1, ND, ci))
    raise ValueError(entry)


ENTRIES = ["yxt_i16", "yxt_f64", "grp_i16", "grp_f32"]


def _task(task, p):
    n, i, j, letters = task
    k = len(letters) + 1
    idx = sse.word_indices(k, n)
    x = sse.render(idx, [ND] + letters)
    sub = "words"
    for entry in ENTRIES:
        try:
            out = run_entry(entry, x, i, j)
        except Exception as e:
            p.violation(sub, {"entry": entry, "window": [i, j], "n": n}, {"kind": "spi_raise", "entry": entry, "n": n, "window": [i, j], "letters": letters},
                        f"{entry} raised {type(e).__name__}: {e} on the cube of all words of length {n}, window [{i},{j})")
            continue
        c, nt, big = compare(out, idx, letters, i, j, entry, p, sub, rel_f32=entry.endswith("f32"))
        p.count(sub, evaluations=idx.shape[0], nontrivial=nt, excluded=idx.shape[0] - c, beyond_7000_cells=big)
    if n == 5 and (i, j) == (1, 4):
        r = 4321
        p.sample(sub, {"word": [ND if s == 0 else letters[s - 1] for s in idx[r]], "window": [i, j], "entries": ENTRIES})


def _grouped_windows_task(task, p):
    """Two interleaved groups with their OWN calibration windows (positions inside each group's sub-series): every
    word of length 6, every pair of group-local windows; each group's cells must be the SPI of its sub-series
    under its own window."""
    letters, lo, hi = task
    st = _st()
    sub = "grouped_windows"
    n = 6
    k = len(letters) + 1
    idx = sse.word_indices(k, n)[lo:hi]
    x = sse.render(idx, [ND] + letters)
    g = np.array([0, 1, 0, 1, 0, 1], dtype="int16")
    members = [np.nonzero(g == v)[0] for v in (0, 1)]
    wins = [(0, 2), (1, 3), (0, 3)]
    for w0 in wins:
        for w1 in wins:
            ci = np.array([list(w0), list(w1)], dtype="int64")
            for entry, dt in (("grp2_i16", "int16"), ("grp2_f32", "float32")):
                try:
                    out = np.asarray(st.gammastd_grp(x.astype(dt), g, 2, ND, ci))
                except Exception as e:
                    p.violation(sub, {"entry": entry, "windows": [list(w0), list(w1)]}, {"kind": "grpwin", "lo": lo, "hi": hi, "letters": letters},
                                f"{entry} raised {type(e).__name__}: {e} with group windows {w0} / {w1}")
                    continue
                for gi, (m, w) in enumerate(zip(members, (w0, w1))):
                    c, nt, big = compare(out[:, m], idx[:, m], letters, w[0], w[1], f"{entry}[group {gi} of labels [0,1,0,1,0,1], windows {list(w0)} / {list(w1)}]", p, sub,
                                         rel_f32=(dt == "float32"))
                    p.count(sub, evaluations=idx.shape[0], nontrivial=idx.shape[0] if w0 != w1 else 0)
    if lo == 0:
        p.sample(sub, {"labels": g.tolist(), "group_windows": wins, "words": "all of length 6"})


def accessor(ctx, letters):
    import pandas as pd
    import xarray as xr
    sub = "accessor"
    n = 5
    k = len(letters) + 1
    idx = sse.word_indices(k, n)
    N = idx.shape[0]
    x = sse.render(idx, [ND] + letters)
    time = pd.date_range("2000-01-01", periods=n, freq="10D")
    side = int(np.ceil(np.sqrt(N)))
    pad = side * side - N
    idxp = np.concatenate([idx, np.zeros((pad, n), idx.dtype)])
    xp = np.concatenate([x, np.full((pad, n), ND)])
    for dtype in ("int16", "float32", "float64"):
        da = xr.DataArray(xp.astype(dtype).reshape(side, side, n), dims=("y", "x", "time"), coords={"time": time}, attrs={"nodata": ND})
        for i, j, between in [(i, j, b) for i in range(n) for j in range(i + 2, n + 1) for b in (False, True)]:
            if True:
                # the window is written with dates on the steps, and again with dates strictly between steps
                # (begin 3 days before its first step, end 4 days after its last one: the axis has 10-day steps)
                if between and i == 0 and j == n:
                    continue
                kw = {}
                if i > 0:
                    kw["calibration_begin"] = str((time[i] - pd.Timedelta(days=3 if between else 0)).date())
                if j < n:
                    kw["calibration_end"] = str((time[j - 1] + pd.Timedelta(days=4 if between else 0)).date())
                res = da.hdc.algo.spi(**kw)
                out = res.transpose("y", "x", "time").values.reshape(-1, n)
                if res.dtype != np.int16:
                    ctx.violation(sub, {"what": "dtype", "dtype": dtype}, {"kind": "acc"}, f"spi() on {dtype} returned dtype {res.dtype}")
                c, nt, big = compare(out, idxp, letters, i, j, f"spi[{dtype}]", ctx, sub, rel_f32=(dtype == "float32"))
                ctx.count(sub, evaluations=N, nontrivial=nt)
                a = res.attrs
                if a.get("spi_calibration_begin") != str(time[i]) or a.get("spi_calibration_end") != str(time[j - 1]):
                    ctx.violation(sub, {"what": "attrs", "window": [i, j]}, {"kind": "acc"},
                                  f"spi({kw}) attrs {a.get('spi_calibration_begin')} / {a.get('spi_calibration_end')}, expected {time[i]} / {time[j-1]}")
    ctx.sample(sub, {"cube": f"all {N} words of length {n}", "dtypes": ["int16", "float32", "float64"], "windows": "all with >= 2 steps, dates on the steps and strictly between steps"})


def quantile_family(ctx):
    st = _st()
    sub = "quantile_grid"
    shapes = [0.05, 0.1, 0.5, 1, 2, 10, 100, 500]
    scales = [0.1, 1, 100, 1e4]
    sizes = [5, 10, 30, 100, 400] if ctx.thorough() else [5, 10, 30, 100]
    rows = []
    for a, scale, n in itertools.product(shapes, scales, sizes):
        q = (np.arange(n) + 0.5) / n
        base = scale * sc.gammaincinv(a, q)
        base = base[base > 0]
        if len(base) < n:
            continue
        for order in ("asc", "desc", "inter"):
            xo = {"asc": base, "desc": base[::-1], "inter": np.concatenate([base[::2], base[1::2]])}[order]
            for zf in (0.0, 0.2, 0.9):
                x = xo.copy()
                nzero = int(np.floor(zf * n + 1e-9))
                if nzero:
                    x[np.linspace(0, n - 1, nzero).astype(int)] = 0.0
                for ties in (False, True):
                    if ties:
                        with np.errstate(all="ignore"):
                            mag = 10.0 ** (np.floor(np.log10(np.where(x > 0, x, 1))) - 1)
                        x2 = np.round(x / mag) * mag
                    else:
                        x2 = x
                    rows.append((a, scale, n, order, zf, ties, x2))
    nchecked = 0
    for (a, scale, n, order, zf, ties, x) in rows:
        valid = x >= 0
        nz = int((x == 0).sum())
        p0 = nz / n
        pos = x[x > 0]
        if p0 > 0.9 or len(set(pos.tolist())) < 2:
            ctx.count(sub, excluded=1)
            continue
        fit = O.mle(pos.tolist())
        if fit is None:
            ctx.count(sub, excluded=1)
            continue
        for dtype in ("float64", "float32"):
            xx = x.astype(dtype)
            if dtype == "float32":
                pos32 = xx[xx > 0].astype(np.float64)
                if len(set(pos32.tolist())) < 2 or (xx.astype(np.float64) == 0).sum() != nz:
                    continue
                fit_d = O.mle(pos32.tolist())
                ds = 3e-7 * (np.abs(np.log(pos32)).max() + 1)
                rel = 2 * ds / fit_d[2] + 1e-9
            else:
                fit_d, rel = fit, 1e-9
            try:
                out = np.asarray(st.gammastd_yxt(xx.reshape(1, 1, n), ND, 0, n)).reshape(n)
            except Exception as e:
                ctx.violation(sub, {"shape": a, "scale": scale, "n": n, "order": order, "zeros": zf, "ties": ties, "dtype": dtype},
                              {"kind": "qg", "x": xx.tolist(), "dtype": dtype}, f"gammastd_yxt raised {type(e).__name__}: {e}")
                continue
            lo, hi, ce = O.admissible(xx.astype(np.float64), fit_d, p0, rel)
            dec = np.abs(ce) <= 7000
            bad = dec & ((out < lo) | (out > hi))
            nchecked += 1
            ctx.count(sub, evaluations=1, nontrivial=1)
            if bad.any():
                t = int(np.nonzero(bad)[0][0])
                ctx.violation(sub, {"shape": a, "scale": scale, "n": n, "order": order, "zeros": zf, "ties": ties, "dtype": dtype},
                              {"kind": "qg", "x": xx.tolist(), "dtype": dtype},
                              f"quantile grid shape={a} scale={scale} n={n} {order} zeros={zf} ties={ties} {dtype}: x[{t}]={float(xx[t])!r} -> {int(out[t])}, "
                              f"admissible [{int(lo[t])},{int(hi[t])}] (fitted alpha reference {fit_d[0]:.9g})")
    ctx.sample(sub, {"shapes": shapes, "scales": scales, "sizes": sizes, "orders": ["asc", "desc", "inter"], "zero_share": [0, 0.2, 0.9], "ties": [False, True]})


def nodata_argument(ctx):
    """spi(nodata=v) for v in {-9999, 0, 7} against every state of attrs['nodata'] (absent, equal, conflicting): the
    argument decides - the result is the kernel's on the same cube with that marker (ungrouped and grouped)."""
    import pandas as pd
    import xarray as xr
    st = _st()
    sub = "nodata_argument"
    n = 4
    alphabet = [-9999, 0, 1, 7, 30]
    idx = sse.word_indices(len(alphabet), n)
    x = sse.render(idx, alphabet).astype("int16")
    N = x.shape[0]
    time = pd.date_range("2000-01-01", periods=n, freq="10D")
    g = np.array([0, 0, 1, 1], dtype="int16")
    ci = np.array([[0, 2], [0, 2]], dtype="int16")
    for v in (-9999, 0, 7):
        exp = np.asarray(st.gammastd_yxt(x.reshape(N, 1, n), v, 0, n)).reshape(N, n)
        exp_g = np.asarray(st.gammastd_grp(x, g, 2, v, ci))
        for attr in ("<absent>", -9999, 0, 7):
            attrs = {} if attr == "<absent>" else {"nodata": attr}
            da = xr.DataArray(x.reshape(25, 25, n).copy(), dims=("y", "x", "time"), coords={"time": time}, attrs=attrs)
            for grouped in (False, True):
                what = f"spi(nodata={v}{', groups=[0,0,1,1]' if grouped else ''}) with attrs nodata {attr}"
                try:
                    res = da.hdc.algo.spi(nodata=v, groups=[0, 0, 1, 1]) if grouped else da.hdc.algo.spi(nodata=v)
                    got = res.values.reshape(N, n)
                except Exception as e:
                    ctx.violation(sub, {"nodata": v, "attr": attr, "grouped": grouped}, {"kind": "nd_arg"}, f"{what} raised {type(e).__name__}: {e}")
                    continue
                e_ = exp_g if grouped else exp
                ctx.count(sub, evaluations=N, nontrivial=N if attr != v else 0)
                bad = (got != e_).any(axis=1)
                if bad.any():
                    r = int(np.nonzero(bad)[0][0])
                    ctx.violation(sub, {"nodata": v, "attr": attr, "grouped": grouped}, {"kind": "nd_arg"},
                                  f"{what}: pixel {x[r].tolist()} -> {got[r].tolist()}, the kernel with nodata={v} gives {e_[r].tolist()}")
    ctx.sample(sub, {"cube": f"all {N} words of length {n} over {alphabet}", "argument": [-9999, 0, 7], "attrs": ["<absent>", -9999, 0, 7]})


def attr_histories(ctx):
    """spi() on one long-lived object whose nodata attribute is edited in place between calls."""
    import pandas as pd
    import xarray as xr
    from .. import histories
    sub = "attr_histories"
    n = 6
    time = pd.date_range("2000-01-01", periods=n, freq="10D")
    rows = [[3, 1, 4, 1, 5, 9], [0, 7, 0, 7, 2, 30], [-9999, 2, 7, -9999, 30, 1], [7, 7, 2, 9, 7, 1], [0, 0, 3, 8, 0, 2], [-9999] * n, [0] * n, [7] * n]
    for dtype in ("int16", "float32"):
        data = np.array(rows).astype(dtype).reshape(2, 4, n)

        def make():
            return xr.DataArray(data.copy(), dims=("y", "x", "time"), coords={"time": time})

        def op(da):
            return da.hdc.algo.spi().values.copy()

        h = histories.explore(make, "nodata", [histories.ABSENT, -9999, 0, 7], op, lambda a, b: np.array_equal(a, b), 3, ctx, sub, f"spi[{dtype}]")
        ctx.note_add("attr_histories", h)
    ctx.sample(sub, {"attr": "nodata", "values": ["<absent>", -9999, 0, 7], "depth": 3, "pixels": rows})


def run(ctx):
    st = _st()
    z = np.array([[[1, 2, 7, 30]]])
    st.gammastd_yxt(z.astype("int16"), ND, 0, 4); st.gammastd_yxt(z.astype("float64"), ND, 0, 4); st.gammastd_yxt(z.astype("float32"), ND, 0, 4)
    g = np.zeros(4, "int16"); ci = np.array([[0, 4]], "int16")
    st.gammastd_grp(z[0].astype("int16"), g, 1, ND, ci); st.gammastd_grp(z[0].astype("float32"), g, 1, ND, ci)
    letters = letters_for(ctx.seed)
    maxn = 7 if ctx.thorough() else 6
    tasks = [(n, i, j, letters) for n in range(maxn, 2, -1) for i in range(n) for j in range(i + 2, n + 1)]
    ctx.pmap(_task, tasks)
    tot = (len(letters) + 1) ** 6
    ctx.pmap(_grouped_windows_task, [(letters, lo, min(tot, lo + 4096)) for lo in range(0, tot, 4096)])
    ctx.note("alphabet", ["ND"] + letters)
    ctx.note("max_len", maxn)
    accessor(ctx, letters)
    quantile_family(ctx)
    attr_histories(ctx)
    nodata_argument(ctx)
    from . import spell_common
    spell_common.run(ctx, "C07")



def replay(sub, case, p):
    if case.get("kind") == "spelling":
        from . import spell_common
        spell_common.run(p, "C07")
        return
    if case["kind"] == "spi":
        idx = np.asarray([case["idx"]], dtype=np.int8)
        letters = case["letters"]
        x = sse.render(idx, [ND] + letters)
        i, j = case["window"]
        entry = case["entry"]
        if entry.startswith("grp2"):
            entry = "grp_i16" if "i16" in entry else "grp_f32"      # the group's sub-series alone, same window
        if entry.startswith("spi["):
            entry = "yxt_" + {"int16": "i16", "float64": "f64", "float32": "f64"}[entry[4:-1]]
        out = run_entry(entry, x, i, j)
        compare(out, idx, letters, i, j, case["entry"], p, sub, rel_f32=case["entry"].endswith("f32") or "float32" in case["entry"])
    elif case["kind"] == "grpwin":
        _grouped_windows_task((case["letters"], case["lo"], case["hi"]), p)
    elif case["kind"] == "attr_history":
        attr_histories(p)
    elif case["kind"] == "nd_arg":
        nodata_argument(p)
    elif case["kind"] == "qg":
        p.thorough = lambda: False
        quantile_family(p)
    else:
        accessor(p, letters_for(0))

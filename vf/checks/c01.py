"""C01 — the Whittaker core ws2d returns the exact penalised least-squares solution.

Bounded exhaustive product: every length n in the bound x every 0/1 weight pattern with >= 2 ones
(and every pattern over {0,1/3,1,2} for short n) x a lambda grid spanning 1e-6..1e8 x a basis of
right-hand sides (unit impulses span R^n; the solver is linear in y, which is itself checked).
Exact clause: the *real source* ws2d.py_func executed on Fractions (array factory swapped) must equal
an independent dense rational elimination identically.  Float clause: compiled ws2d vs that exact
solution, norm-wise relative error <= 1e-6.
"""
from __future__ import annotations

import importlib
import itertools
import types
from fractions import Fraction as F

import numpy as np

from .. import sse
from ..oracle import pls

LEVEL = "exploration"
RULE = ("product of n x weight pattern x lambda x right-hand side; a case is non-trivial when the "
        "weight pattern has at least one zero weight (gap) or non-unit weights; distinct = distinct "
        "(n, w, lambda, y) tuples")
ASSUMPTIONS = [
    "relative error is measured norm-wise: max|z_float - z_exact| <= 1e-6 * max|z_exact| (the most "
    "lenient standard reading of the statement)",
    "all y is covered by linearity of the solver in y for fixed (w, lambda): unit impulses span R^n; "
    "linearity itself is checked on composite vectors",
]

LAMBDAS = [1e-6, 1e-3, 10 ** -0.5, 1.0, 10.0, 1e4, 1e8]


def _mod():
    import hdc.algo  # noqa: F401
    return importlib.import_module("hdc.algo.ops.ws2d")


_FRAC_FN = None


def frac_ws2d():
    """The real source of ws2d, executed by CPython on object arrays of Fractions."""
    global _FRAC_FN
    if _FRAC_FN is None:
        m = _mod()
        py = m.ws2d.py_func

        def ozeros(shape, *a, **k):
            arr = np.empty(shape, dtype=object)
            arr[...] = F(0)
            return arr

        class NPProxy:
            def __getattr__(self, k):
                return getattr(np, k)
            zeros = staticmethod(ozeros)

            @staticmethod
            def zeros_like(a, *x, **k):
                return ozeros(np.shape(a))

            @staticmethod
            def empty(shape, *a, **k):
                return ozeros(shape)

        g = dict(py.__globals__)
        for k, v in list(g.items()):
            if v is np.zeros:
                g[k] = ozeros
            elif v is np.empty:
                g[k] = ozeros
            elif v is np:
                g[k] = NPProxy()
        _FRAC_FN = types.FunctionType(py.__code__, g, py.__name__, py.__defaults__, py.__closure__)
    return _FRAC_FN


def y_vectors(n, seed):
    ys = []
    for k in range(n):
        y = [0] * n
        y[k] = 10000
        ys.append(("impulse%d" % k, y))
    ys.append(("ones", [1] * n))
    ys.append(("ramp", [3 * i - 7 for i in range(n)]))
    ys.append(("alt", [9000 if i % 2 == 0 else -9000 for i in range(n)]))
    rng = sse.seeded_rng(seed, "c01y")
    fixed = [((i * 7919 + 13) % 2001) - 1000 for i in range(n)] if seed == 0 else [rng.randint(-10000, 10000) for _ in range(n)]
    ys.append(("fixed", fixed))
    return ys


def weight_patterns(n, rich):
    for w in itertools.product([0, 1], repeat=n):
        if sum(w) >= 2:
            yield tuple(F(x) for x in w), "".join(map(str, w))
    if rich:
        vals = [F(0), F(1, 3), F(1), F(2)]
        names = ["0", "t", "1", "2"]
        for idx in itertools.product(range(4), repeat=n):
            if sum(1 for i in idx if i) >= 2 and any(i in (1, 3) for i in idx):
                yield tuple(vals[i] for i in idx), "".join(names[i] for i in idx)


def wide_weight_patterns(n):
    """Weights spread over many orders of magnitude (1e-13, 1, 1e5): a weight is a number like any other - it may be
    tiny next to its neighbours without being zero.  Exact clause only (the float clause's 1e-6 is about lambda)."""
    vals = [F(0), F(1, 10 ** 13), F(1), F(10 ** 5)]
    names = ["0", "e", "1", "K"]
    for idx in itertools.product(range(4 if n <= 5 else 3), repeat=n):
        if sum(1 for i in idx if i) >= 2 and any(i == 1 for i in idx):
            yield tuple(vals[i] for i in idx), "".join(names[i] for i in idx)


def check_one(n, w, wname, lamf, ys, p, exact=True, floatc=True):
    """One (n, w, lambda): all right-hand sides at once."""
    m = _mod()
    lam = F(lamf)  # the float's exact rational value
    A = pls.frac_matrix(w, lam)
    B = [[w[i] * F(y[i]) for (_, y) in ys] for i in range(n)]
    Z = pls.frac_solve_multi(A, B)  # n x m exact
    key_base = {"n": n, "w": wname, "lambda": repr(lamf)}
    if exact:
        try:
            fn = frac_ws2d()
            for j, (yname, y) in enumerate(ys):
                za = fn(np.array([F(v) for v in y], dtype=object), lam, np.array(list(w), dtype=object))
                ze = [Z[i][j] for i in range(n)]
                p.count("exact", evaluations=1, nontrivial=int(any(x != 1 for x in w)))
                if list(za) != ze:
                    p.violation("exact", dict(key_base, y=yname),
                                {"kind": "exact", "n": n, "w": [str(x) for x in w], "lambda": repr(lamf), "y": y},
                                f"ws2d source in exact arithmetic differs from the dense rational solve: n={n} w={wname} "
                                f"lambda={lamf!r} y={y}: got {[float(v) for v in za]} expected {[float(v) for v in ze]}")
                    break
        except ZeroDivisionError:
            p.violation("exact", dict(key_base, y="*"),
                        {"kind": "exact", "n": n, "w": [str(x) for x in w], "lambda": repr(lamf), "y": ys[0][1]},
                        f"ws2d source divides by zero in exact arithmetic (zero pivot): n={n} w={wname} lambda={lamf!r}")
        except (TypeError, AttributeError, ValueError) as e:
            p.set_undecided("exact", f"source cannot be executed on Fractions: {type(e).__name__}: {e}")
    if floatc:
        wf = np.array([float(x) for x in w])
        # 1/3 is not a float: the float clause uses the float weights' exact rational values
        if any(F(float(x)) != x for x in w):
            wq = tuple(F(float(x)) for x in w)
            A2 = pls.frac_matrix(wq, lam)
            B2 = [[wq[i] * F(y[i]) for (_, y) in ys] for i in range(n)]
            Zf = pls.frac_solve_multi(A2, B2)
        else:
            Zf = Z
        worst = 0.0
        for j, (yname, y) in enumerate(ys):
            zc = m.ws2d(np.array(y, dtype=np.float64), float(lamf), wf)
            ze = [Zf[i][j] for i in range(n)]
            scale = max(abs(v) for v in ze)
            p.count("float", evaluations=1, nontrivial=int(any(x != 1 for x in w)))
            if not np.all(np.isfinite(zc)):
                rel = float("inf")
            elif scale == 0:
                rel = 0.0 if not np.any(zc) else float("inf")
            else:
                err = max(abs(F(float(zc[i])) - ze[i]) for i in range(n))
                rel = float(err / scale)
            worst = max(worst, rel)
            if rel > 1e-6:
                p.violation("float", dict(key_base),
                            {"kind": "float", "n": n, "w": [str(x) for x in w], "lambda": repr(lamf), "y": y},
                            f"compiled ws2d relative error {rel:.3g} > 1e-6: n={n} w={wname} lambda={lamf!r} y={yname}")
                break
        if worst <= 1e-6:
            p.note_max("max_float_rel_error_passing", worst)
    # linearity of the compiled solver on composites (alt = 0.9*sum of signed impulses)
    return Z


def _task(task, p):
    n, chunk, seed, exact, floatc = task
    ys = y_vectors(n, seed)
    for w, wname in chunk:
        for lamf in LAMBDAS:
            check_one(n, w, wname, lamf, ys, p, exact, floatc)
    p.sample("exact", {"n": n, "w": chunk[0][1], "lambdas": [repr(l) for l in LAMBDAS], "y": [nm for nm, _ in ys]})


def lambda_types(ctx):
    """The same lambda handed over as Python int / NumPy integer / float32 must give the float64 result
    (the property speaks about the number lambda, not about how the caller spells it)."""
    m = _mod()
    sub = "lambda_types"
    for n, w in ((6, [1, 1, 0, 1, 1, 1]), (5, [1, 1, 1, 1, 1]), (8, [0, 1, 1, 0, 0, 1, 0, 1]), (7, [0.5, 0, 2, 1, 0, 1, 1])):
        wf = np.array(w, dtype=np.float64)
        for yname, y in y_vectors(n, 0)[-4:]:
            yf = np.array(y, dtype=np.float64)
            for lam in (1, 10, 10000, 10 ** 8):
                ref = m.ws2d(yf, float(lam), wf)
                for spell, val in (("int", int(lam)), ("np.int64", np.int64(lam)), ("np.int32", np.int32(lam)), ("np.float32", np.float32(lam))):
                    ctx.count(sub, evaluations=1, nontrivial=1)
                    try:
                        got = m.ws2d(yf, val, wf)
                        ok = np.allclose(got, ref, rtol=1e-6 if spell == "np.float32" else 1e-12, atol=1e-9)
                        msg = f"-> {np.asarray(got).tolist()} instead of {ref.tolist()}"
                    except Exception as e:
                        ok, msg = False, f"raised {type(e).__name__}: {e}"
                    if not ok:
                        ctx.violation(sub, {"n": n, "w": w, "lambda": lam, "spelling": spell, "y": yname},
                                      {"kind": "lamtype", "n": n, "w": w, "lambda": lam, "y": y},
                                      f"ws2d(y={y}, lmda={spell}({lam}), w={w}) {msg}")
    ctx.sample(sub, {"spellings": ["int", "np.int64", "np.int32", "np.float32"], "lambdas": [1, 10, 10000, 10 ** 8]})


def long_family(ctx):
    """Deterministic long series against an 80-digit decimal-free exact rational banded solve."""
    sub = "float_long"
    m = _mod()
    for n in ((50, 100, 220) if not ctx.thorough() else (50, 100, 220, 400)):
        t = np.arange(n)
        y = np.round(3000 * np.sin(t / 5.0) + 500 * ((t * 37) % 11 - 5)).astype(np.int64)
        layouts = {
            "all": np.ones(n, int),
            "every3": (t % 3 == 0).astype(int),
            "gap30": (~((t >= 10) & (t < 40))).astype(int),
            "lead_trail20": ((t >= 20) & (t < n - 20)).astype(int),
            "two": ((t == n // 3) | (t == n // 3 + 7)).astype(int),
        }
        if n >= 100:
            # very long zero-weight runs at the end / start / in the middle (pivots behind them become tiny but
            # legitimate numbers: ~ 3*lambda/g^3)
            k = 20
            layouts["trail_long"] = (t < k).astype(int)
            layouts["lead_long"] = (t >= n - k).astype(int)
            layouts["mid_long"] = ((t < k // 2) | (t >= n - k // 2)).astype(int)
        for lname, w in layouts.items():
            for lamf in ([1e-6, 1.0, 1e4] if n >= 400 else [1e-6, 1e-3, 1.0, 1e4, 1e8]):
                ze = banded_exact(y.tolist(), F(lamf), w.tolist())
                zc = m.ws2d(y.astype(np.float64), lamf, w.astype(np.float64))
                scale = max(abs(v) for v in ze)
                err = max(abs(F(float(zc[i])) - ze[i]) for i in range(n)) if np.all(np.isfinite(zc)) else None
                rel = float(err / scale) if err is not None and scale else float("inf")
                ctx.count(sub, evaluations=1, nontrivial=int(lname != "all"))
                if rel > 1e-6:
                    ctx.violation(sub, {"n": n, "layout": lname, "lambda": repr(lamf)},
                                  {"kind": "float_long", "n": n, "layout": lname, "lambda": repr(lamf)},
                                  f"compiled ws2d relative error {rel:.3g} > 1e-6 on long series n={n} layout={lname} lambda={lamf!r}")
                else:
                    ctx.note_max("max_float_long_rel_error_passing", rel)
    ctx.sample(sub, {"n": [50, 100, 400], "layouts": ["all", "every3", "gap30", "lead_trail20", "two"]})


def banded_exact(y, lam, w):
    """Exact rational solve exploiting the band structure (independent of hdc-algo: plain Gaussian
    elimination without pivoting on the pentadiagonal matrix built from the definition, valid
    because the matrix is symmetric positive definite)."""
    n = len(y)
    P = pls.dtd(n)
    rows = []
    for i in range(n):
        lo, hi = max(0, i - 2), min(n, i + 3)
        rows.append({j: lam * int(P[i, j]) + (F(w[i]) if i == j else 0) for j in range(lo, hi)})
    b = [F(w[i]) * F(y[i]) for i in range(n)]
    for c in range(n):
        piv = rows[c][c]
        for r in range(c + 1, min(n, c + 3)):
            f = rows[r].get(c, 0)
            if f:
                f = f / piv
                for j, v in rows[c].items():
                    if j >= c:
                        rows[r][j] = rows[r].get(j, 0) - f * v
                b[r] -= f * b[c]
    z = [F(0)] * n
    for r in range(n - 1, -1, -1):
        s = b[r]
        for j, v in rows[r].items():
            if j > r:
                s -= v * z[j]
        z[r] = s / rows[r][r]
    return z


def run(ctx):
    m = _mod()
    m.ws2d(np.zeros(4), 1.0, np.ones(4))  # compile before forking
    maxn = 12 if ctx.thorough() else 9
    rich_max = 6 if ctx.thorough() else 5
    tasks = []
    for n in range(4, maxn + 1):
        pats = list(weight_patterns(n, n <= rich_max))
        size = 8 if n >= 9 else 40
        for chunk in sse.chunked(pats, size):
            tasks.append((n, chunk, ctx.seed, True, True))
    for n in (4, 5, 6):
        for chunk in sse.chunked(list(wide_weight_patterns(n)), 40):
            tasks.append((n, chunk, ctx.seed, True, False))
    tasks.sort(key=lambda t: -t[0])
    ctx.pmap(_task, tasks)
    ctx.note("n_range", [4, maxn])
    ctx.note("lambdas", [repr(l) for l in LAMBDAS])
    # cross-validation of the two independent exact solvers used as oracles
    y = [3, -1, 4, 1, -5, 9, 2, -6]
    for lam in (F(1, 1000), F(7)):
        a = pls.frac_solve(y, lam, [1, 0, 1, 1, 0, 0, 1, 1])
        b = banded_exact(y, lam, [1, 0, 1, 1, 0, 0, 1, 1])
        assert a == b, "oracle self-check failed"
    ctx.note("oracle_crosscheck", "dense and banded rational solvers agree")
    long_family(ctx)
    lambda_types(ctx)


def replay(sub, case, p):
    if case["kind"] == "lamtype":
        lambda_types(p)
        return
    w = tuple(F(x) for x in case.get("w", []))
    lamf = float(case["lambda"])
    if case["kind"] in ("exact", "float"):
        n = case["n"]
        ys = [("replay", case["y"])]
        check_one(n, w, "".join(case["w"]), lamf, ys, p, exact=case["kind"] == "exact", floatc=case["kind"] == "float")
    else:
        class C:  # minimal ctx facade
            def thorough(self):
                return True
        ctxp = p
        ctxp.thorough = lambda: True
        long_family(ctxp)


def replay_finding(f, p):
    m = f["match"]
    if f.get("subcheck") == "float":
        names = {"0": F(0), "t": F(1, 3), "1": F(1), "2": F(2), "e": F(1, 10 ** 13), "K": F(10 ** 5)}
        w = tuple(names[ch] for ch in m["w"])
        check_one(m["n"], w, m["w"], float(m["lambda"]), y_vectors(m["n"], 0), p, exact=False, floatc=True)
    elif f.get("subcheck") == "float_long":
        p.thorough = lambda: True
        long_family(p)

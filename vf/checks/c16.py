"""C16 — zonal mean is the exact mean and count of valid pixels per zone.

Bounded exhaustive product: rasters of 1..5 (6) pixels with every assignment of zone in {0,1,2,zone-nodata}
and value in {nodata, a, b} (int16) resp. {nodata, NaN, a, b} (float32) to every pixel, num_zones in {1,3,4},
output dtype float32 / float64, through do_mean and DataArray.hdc.zonal.mean (numpy and dask); plus boundary
sizes at which single-precision accumulation stops being exact (2^24 - 1, 2^24, 2^24 + 2, 25,000,000 pixels
in one zone), 1000 single-pixel zones and all permutations of a 2x3 raster.
"""
from __future__ import annotations

import importlib
import itertools
from fractions import Fraction as F

import numpy as np

from .. import sse

LEVEL = "exploration"
RULE = ("zone assignment x value assignment x num_zones x dtype (complete product for small rasters), boundary-size "
        "zones; non-trivial = raster where some zone has both valid and excluded (nodata / NaN / zone-nodata) pixels or "
        "an empty zone exists; distinct = (raster shape, zone assignment, value assignment, num_zones, dtype)")
ASSUMPTIONS = [
    "mean compared with the exact rational mean within 2 ulp of the output dtype; counts must be exact",
    "large zones use integer-valued pixels, whose exact sum is representable in float64",
]

ND = -9999
ZND = 255


def _zonal():
    import hdc.algo  # noqa: F401
    return importlib.import_module("hdc.algo.ops.zonal")


def reference(values, zones, num_zones, isfloat, nd=None):
    """values (T,P) float64 with ND / NaN markers, zones (P,). Returns mean (T,num_zones) float64 exact-rounded, count."""
    T, P = values.shape
    valid = (values != (ND if nd is None else nd)) & ~np.isnan(values)
    mean = np.full((T, num_zones), np.nan)
    cnt = np.zeros((T, num_zones), dtype=np.int64)
    for z in range(num_zones):
        m = (zones == z)
        v = valid[:, m]
        c = v.sum(axis=1)
        s = np.where(v, values[:, m], 0).sum(axis=1)   # small integers: exact in float64
        with np.errstate(all="ignore"):
            mean[:, z] = np.where(c > 0, s / np.maximum(c, 1), np.nan)
        cnt[:, z] = c
    return mean, cnt


def check_result(res, mean, cnt, out_dtype, p, sub, key_fn, case_fn):
    res = np.asarray(res)
    if res.dtype != np.dtype(out_dtype):
        p.violation(sub, dict(key_fn(0), what="dtype"), case_fn(0), f"result dtype {res.dtype}, requested {out_dtype}")
        return
    gm = res[:, :, 0].astype(np.float64)
    gc = res[:, :, 1].astype(np.float64)
    exp = mean.astype(out_dtype).astype(np.float64)
    tol = 2 * np.spacing(np.abs(exp).astype(out_dtype)).astype(np.float64)
    bad_m = ~((np.abs(gm - exp) <= tol) | (np.isnan(gm) & np.isnan(exp)))
    bad_c = gc != cnt
    bad = (bad_m | bad_c).any(axis=1)
    for t in np.nonzero(bad)[0][:3]:
        p.violation(sub, key_fn(t), case_fn(t),
                    f"zonal mean/count {res[t].tolist()} differs from the exact mean {mean[t].tolist()} and count {cnt[t].tolist()}")


def _small_task(task, p):
    P, shape, zlo, zhi, isfloat, thorough = task
    zm = _zonal()
    sub = "small_rasters"
    vals_alphabet = [ND, 7, -3] if not isfloat else [ND, np.nan, 7.5, -3.25]
    kv = len(vals_alphabet)
    vidx = sse.word_indices(kv, P)
    values = np.asarray(vals_alphabet, dtype=np.float64)[vidx]       # (T,P)
    T = values.shape[0]
    zidx_all = sse.word_indices(4, P)[zlo:zhi]
    zone_alphabet = np.array([0, 1, 2, ZND])
    pix_dtype = "float32" if isfloat else "int16"
    pixels = values.astype(pix_dtype).reshape((T,) + shape)
    if isfloat:
        # the accessor replaces NaN by nodata before the kernel; the kernel itself is called the same way
        pixels = np.where(np.isnan(pixels), np.float32(ND), pixels)
    nontriv = 0
    for zi in zidx_all:
        zones = zone_alphabet[zi]
        zr = zones.astype("int16").reshape(shape)
        for num_zones in (3, 4, 1):
            if num_zones == 1 and ((zones != 0) & (zones != ZND)).any():
                continue   # zone ids outside 0..n-1 are out of contract
            mean, cnt = reference(values, zones, num_zones, isfloat)
            for out_dtype in ("float32", "float64"):
                key_fn = lambda t: {"shape": list(shape), "zones": zones.tolist(), "values": values[t].tolist(), "num_zones": num_zones, "dtype": out_dtype, "float": isfloat}
                case_fn = lambda t: {"kind": "small", "shape": list(shape), "zones": zones.tolist(), "values": values[t].tolist(), "num_zones": num_zones,
                                     "dtype": out_dtype, "float": isfloat}
                try:
                    res = zm.do_mean(pixels, zr, num_zones, ND, ZND, getattr(np, out_dtype))
                except Exception as e:
                    p.violation(sub, key_fn(0), case_fn(0), f"do_mean raised {type(e).__name__}: {e}")
                    continue
                check_result(res, mean, cnt, out_dtype, p, sub, key_fn, case_fn)
                p.count(sub, evaluations=T)
            if num_zones == 3:
                excl = (zones == ZND).any() or len(set(zones.tolist()) - {ZND}) < 3
                nontriv += T if excl else int(((values == ND) | np.isnan(values)).any(axis=1).sum())
    p.count(sub, nontrivial=nontriv)
    if zlo == 0 and P == 3:
        p.sample(sub, {"shape": list(shape), "zones": zone_alphabet[zidx_all[27]].tolist(), "values": values[5].tolist(), "float_input": isfloat})


def large_zones(ctx):
    zm = _zonal()
    sub = "large_zones"
    sizes = [2 ** 24 - 1, 2 ** 24, 2 ** 24 + 2, 25_000_000]
    for size in sizes:
        rows = 4096
        cols = -(-size // rows)
        total = rows * cols
        for fam in ("constant", "two_valued"):
            flat = np.full(total, ND, dtype="int16")
            if fam == "constant":
                flat[:size] = 3001
                exact = F(3001)
            else:
                flat[:size] = 1
                flat[:size:3] = 3
                n3 = len(range(0, size, 3))
                exact = F(3 * n3 + (size - n3), size)
            zones = np.zeros(total, dtype="int16")
            # a second small zone and some zone-nodata pixels inside the padding
            pix = flat.reshape(1, rows, cols)
            zr = zones.reshape(rows, cols)
            for out_dtype in ("float32", "float64"):
                res = np.asarray(zm.do_mean(pix, zr, 2, ND, ZND, getattr(np, out_dtype)))
                ctx.count(sub, evaluations=1, nontrivial=1)
                exp = np.array([float(exact)]).astype(out_dtype)[0]
                got_m, got_c = float(res[0, 0, 0]), float(res[0, 0, 1])
                tol = 2 * float(np.spacing(np.abs(exp)))
                key = {"size": size, "family": fam, "dtype": out_dtype}
                if abs(got_m - float(exp)) > tol or got_c != size or not np.isnan(res[0, 1, 0]) or res[0, 1, 1] != 0:
                    ctx.violation(sub, key, {"kind": "large", **key},
                                  f"one zone of {size} pixels ({fam}), dtype {out_dtype}: mean {got_m!r} count {got_c!r}; exact mean {float(exact)!r} count {size}; "
                                  f"empty zone -> {res[0, 1].tolist()}")
    ctx.sample(sub, {"sizes": sizes, "families": ["constant 3001", "1/3 mix"], "dtypes": ["float32", "float64"]})


def many_zones_and_perms(ctx):
    zm = _zonal()
    sub = "zones_and_permutations"
    # 1000 zones with one pixel each (+ one empty zone)
    nz = 1000
    vals = ((np.arange(nz) * 37) % 2001 - 1000).astype("int16")
    pix = np.stack([vals, vals[::-1]]).reshape(2, 25, 40)
    zr = np.arange(nz, dtype="int16").reshape(25, 40)
    res = np.asarray(zm.do_mean(pix, zr, nz + 1, ND, -1, np.float32))   # zone nodata -1: ids 0..999 are all real zones
    ok = np.array_equal(res[0, :nz, 0], vals.astype("float32")) and np.all(res[:, :nz, 1] == 1) and np.isnan(res[0, nz, 0]) and res[0, nz, 1] == 0 \
        and np.array_equal(res[1, :nz, 0], vals[::-1].astype("float32"))
    ctx.count(sub, evaluations=1, nontrivial=1)
    if not ok:
        ctx.violation(sub, {"what": "1000 zones"}, {"kind": "perm"}, "1000 single-pixel zones: means are not the pixel values / counts not 1 / empty zone not NaN,0")
    # invariance under every rearrangement of a 2x3 raster
    v = np.array([5, ND, -2, 9, 9, 4], dtype="int16")
    z = np.array([0, 0, 1, 1, ZND, 0], dtype="int16")
    base = np.asarray(zm.do_mean(v.reshape(1, 2, 3), z.reshape(2, 3), 3, ND, ZND, np.float64))
    for perm in itertools.permutations(range(6)):
        pr = list(perm)
        r = np.asarray(zm.do_mean(v[pr].reshape(1, 2, 3), z[pr].reshape(2, 3), 3, ND, ZND, np.float64))
        ctx.count(sub, evaluations=1, nontrivial=1)
        if not np.array_equal(r, base, equal_nan=True):
            ctx.violation(sub, {"what": "permutation", "perm": pr}, {"kind": "perm"}, f"rearranging the pixels by {pr} changes the result: {r.tolist()} vs {base.tolist()}")
            break
    ctx.sample(sub, {"zones": 1000, "permutations": 720})


def zone_counts(ctx, only=None):
    """Every number of zones K in 1..300 [1..1100] and the sizes around every power of two up to 1025 [65537]: each zone
    populated (two pixels, one of them possibly nodata), some pixels outside all zones, through the accessor on numpy- and
    dask-backed cubes and through the kernel, for every zone-raster dtype / marker that can hold the ids."""
    import pandas as pd
    import xarray as xr
    zm = _zonal()
    sub = "zone_counts"
    thorough = only is None and ctx.thorough()
    ks = set(range(1, 1101 if thorough else 301))
    for e in range(1, 17 if thorough else 11):
        ks |= {2 ** e - 1, 2 ** e, 2 ** e + 1}
    ks |= {1000}
    if only is not None:
        ks = {int(only)}
    time = pd.date_range("2000-01-01", periods=2, freq="D")
    nrun = 0
    for K in sorted(ks):
        # pixel j of zone z: two pixels per zone, three pixels outside all zones; stored interleaved, not sorted by zone
        zid = np.concatenate([np.arange(K), np.arange(K)[::-1], [-1, -1, -1]]).astype(np.int64)
        P = zid.size
        v0 = ((np.arange(P) * 37) % 2001 - 1000).astype(np.int64)
        v1 = ((np.arange(P) * 11 + 5) % 1999 - 900).astype(np.int64)
        v1[::3] = ND
        vals = np.stack([v0, v1])
        valid = vals != ND
        inside = zid >= 0
        cnt = np.stack([np.bincount(zid[inside], weights=valid[t, inside].astype(np.float64), minlength=K) for t in range(2)]).astype(np.int64)
        sm = np.stack([np.bincount(zid[inside], weights=np.where(valid[t, inside], vals[t, inside], 0).astype(np.float64), minlength=K) for t in range(2)])
        with np.errstate(all="ignore"):
            mean = np.where(cnt > 0, sm / np.maximum(cnt, 1), np.nan)
        pix = vals.astype("int16").reshape(2, 1, P)
        boundary = K in {2 ** e + d for e in range(1, 17) for d in (-1, 0, 1)}
        combos = [(zdt, znd) for zdt, znd, cap in (("uint8", 255, 255), ("int16", -1, 32767), ("int16", 32767, 32767), ("uint16", 65535, 65535),
                                                    ("int32", -1, 2 ** 31 - 1), ("int32", 2 ** 31 - 1, 2 ** 31 - 1), ("int64", -9999, 2 ** 62)) if K <= cap]
        if K > 40 and not boundary:
            combos = [combos[0], ("int32", -1)]   # plain sizes: the narrowest dtype that holds the ids, and int32
        for zdt, znd in combos:
            zr = np.where(zid < 0, znd, zid).astype(zdt).reshape(1, P)
            for backend in ("kernel", "numpy", "dask"):
                if backend != "kernel" and K > 2100 and K not in (32767, 32768, 32769, 65535, 65536, 65537):
                    continue
                key_fn = lambda t: {"num_zones": K, "zone_dtype": zdt, "zone_nodata": znd, "backend": backend, "step": int(t)}
                case_fn = lambda t: {"kind": "zone_counts", "K": K}
                try:
                    if backend == "kernel":
                        res = np.asarray(zm.do_mean(pix, zr, K, ND, znd, np.float64))
                    else:
                        da = xr.DataArray(pix, dims=("time", "y", "x"), coords={"time": time}, attrs={"nodata": ND})
                        if backend == "dask":
                            da = da.chunk({"time": 1})
                        zda = xr.DataArray(zr, dims=("y", "x"), attrs={"nodata": znd})
                        res = np.asarray(da.hdc.zonal.mean(zda, np.arange(K), dtype="float64").values)
                except Exception as e:
                    ctx.violation(sub, key_fn(0), case_fn(0), f"zonal mean over {K} zones ({zdt} raster, marker {znd}, {backend}) raised {type(e).__name__}: {e}")
                    continue
                nrun += 1
                ctx.count(sub, evaluations=2 * K, nontrivial=2 * K, states=1)
                if res.shape != (2, K, 2):
                    ctx.violation(sub, dict(key_fn(0), what="shape"), case_fn(0), f"zonal mean over {K} zones ({zdt}, {backend}) has shape {res.shape}")
                    continue
                gm, gc = res[:, :, 0], res[:, :, 1]
                bad = ~((np.abs(gm - mean) <= 2 * np.spacing(np.abs(mean))) | (np.isnan(gm) & np.isnan(mean))) | (gc != cnt)
                if bad.any():
                    t, z = map(int, np.argwhere(bad)[0])
                    ctx.violation(sub, key_fn(t), case_fn(t),
                                  f"zonal mean over {K} zones ({zdt} raster, marker {znd}, {backend}): zone {z} at step {t} -> mean {gm[t, z]!r}, count {gc[t, z]!r}; "
                                  f"exact mean {mean[t, z]!r}, count {int(cnt[t, z])} ({int(bad.sum())} zone-steps differ)")
    ctx.sample(sub, {"zone_counts": f"{min(ks)}..{max(ks)} ({len(ks)} sizes)", "runs": nrun,
                     "rasters": "two pixels per zone + three outside, interleaved; int16 values with nodata in the second step"})


def zone_dtypes(ctx):
    """Zone rasters of every integer dtype with the nodata value customary for it (also values outside int16)."""
    import pandas as pd
    import xarray as xr
    zm = _zonal()
    sub = "zone_raster_dtypes"
    vals = np.array([[5, ND, 7, 2], [1, 1, ND, 30]], dtype="int16").reshape(2, 2, 2)
    time = pd.date_range("2000-01-01", periods=2, freq="D")
    for zdt, znd in (("uint8", 255), ("int16", -1), ("uint16", 65535), ("int32", 2147483647), ("int32", -2147483648), ("int64", -9999), ("uint32", 4294967295)):
        for za in itertools.product([0, 1, 2, znd], repeat=4):
            zones = np.array(za).astype(zdt)
            values = vals.reshape(2, 4).astype(np.float64)
            mean, cnt = reference(values, np.where(np.array(za) == znd, 10 ** 9, np.array(za)), 3, False)
            for backend in ("numpy", "dask"):
                da = xr.DataArray(vals, dims=("time", "y", "x"), coords={"time": time}, attrs={"nodata": ND})
                if backend == "dask":
                    da = da.chunk({"time": 1})
                zda = xr.DataArray(zones.reshape(2, 2), dims=("y", "x"), attrs={"nodata": znd})
                key_fn = lambda t: {"zone_dtype": zdt, "zone_nodata": znd, "zones": list(map(int, za)), "backend": backend}
                case_fn = lambda t: {"kind": "zdt"}
                try:
                    arr = np.asarray(da.hdc.zonal.mean(zda, [0, 1, 2], dtype="float64").values)
                except Exception as e:
                    ctx.violation(sub, key_fn(0), case_fn(0), f"zonal.mean with a {zdt} zone raster (nodata {znd}) raised {type(e).__name__}: {e}")
                    continue
                ctx.count(sub, evaluations=2, nontrivial=2)
                check_result(arr, mean, cnt, "float64", ctx, sub, key_fn, case_fn)
            # the kernel directly
            res = zm.do_mean(vals, zones.reshape(2, 2), 3, ND, znd, np.float64)
            check_result(res, mean, cnt, "float64", ctx, sub, lambda t: {"zone_dtype": zdt, "zone_nodata": znd, "zones": list(map(int, za)), "backend": "kernel"}, lambda t: {"kind": "zdt"})
    ctx.sample(sub, {"zone_dtypes": ["uint8/255", "int16/-1", "uint16/65535", "int32/2147483647", "int32/-2147483648", "int64/-9999", "uint32/4294967295"]})


def accessor(ctx):
    import pandas as pd
    import xarray as xr
    zm = _zonal()
    sub = "accessor"
    P = 4
    shape = (2, 2)
    zone_alphabet = np.array([0, 1, 2, ZND])
    time_all = None
    for isfloat in (False, True):
        vals_alphabet = [ND, 7, -3] if not isfloat else [ND, np.nan, 7.5, -3.25]
        vidx = sse.word_indices(len(vals_alphabet), P)
        values = np.asarray(vals_alphabet, dtype=np.float64)[vidx]
        T = values.shape[0]
        time = pd.date_range("2000-01-01", periods=T, freq="D")
        pix_dtype = "float32" if isfloat else "int16"
        for zi in sse.word_indices(4, P)[::5]:
            zones = zone_alphabet[zi]
            zda = xr.DataArray(zones.astype("int16").reshape(shape), dims=("y", "x"), attrs={"nodata": ZND})
            mean, cnt = reference(values, zones, 3, isfloat)
            for backend in ("numpy", "dask"):
                da = xr.DataArray(values.astype(pix_dtype).reshape((T,) + shape), dims=("time", "y", "x"), coords={"time": time},
                                  attrs={"nodata": ND}, name="v")
                if backend == "dask":
                    da = da.chunk({"time": 7, "y": -1, "x": -1})
                for out_dtype in ("float32", "float64"):
                    key_fn = lambda t: {"zones": zones.tolist(), "values": values[t].tolist(), "dtype": out_dtype, "backend": backend, "float": isfloat}
                    case_fn = lambda t: {"kind": "acc", **key_fn(t)}
                    try:
                        res = da.hdc.zonal.mean(zda, [10, 20, 30], dtype=out_dtype, dim_name="zz", name="zm")
                        arr = np.asarray(res.values)
                    except Exception as e:
                        ctx.violation(sub, key_fn(0), case_fn(0), f"zonal.mean raised {type(e).__name__}: {e}")
                        continue
                    ctx.count(sub, evaluations=T, nontrivial=T)
                    check_result(arr, mean, cnt, out_dtype, ctx, sub, key_fn, case_fn)
                    if res.dims != ("time", "zz", "stat") or list(res["zz"].values) != [10, 20, 30] or list(res["stat"].values) != ["mean", "valid"] \
                            or res.name != "zm" or res.attrs.get("nodata") != ND:
                        ctx.violation(sub, dict(key_fn(0), what="metadata"), case_fn(0), f"zonal.mean metadata: dims {res.dims}, name {res.name}, attrs {res.attrs}")
    # nodata attributes that float32 (the default output dtype) cannot represent: the raster's pixels are compared with
    # the marker in the raster's own precision whatever dtype the result is asked in
    for pix_dtype, nd in (("float64", 1e20), ("float64", -9999.9), ("int32", 2147483647), ("int64", 99999999)):
        isfloat = pix_dtype.startswith("float")
        vals_alphabet = [nd, 7, -3] + ([np.nan] if isfloat else [])
        vidx = sse.word_indices(len(vals_alphabet), P)
        values = np.asarray(vals_alphabet, dtype=np.float64)[vidx]
        T = values.shape[0]
        time = pd.date_range("2000-01-01", periods=T, freq="D")
        for zi in sse.word_indices(4, P)[::37]:
            zones = zone_alphabet[zi]
            zda = xr.DataArray(zones.astype("int16").reshape(shape), dims=("y", "x"), attrs={"nodata": ZND})
            mean, cnt = reference(values, zones, 3, isfloat, nd=nd)
            for backend in ("numpy", "dask"):
                pix = values.astype(pix_dtype) if isfloat else np.asarray(vals_alphabet, dtype=pix_dtype)[vidx]
                da = xr.DataArray(pix.reshape((T,) + shape), dims=("time", "y", "x"), coords={"time": time}, attrs={"nodata": nd}, name="v")
                if backend == "dask":
                    da = da.chunk({"time": 7, "y": -1, "x": -1})
                for out_dtype in ("float32", "float64"):
                    key_fn = lambda t: {"zones": zones.tolist(), "values": values[t].tolist(), "dtype": out_dtype, "backend": backend, "raster_dtype": pix_dtype, "nodata": nd}
                    case_fn = lambda t: {"kind": "acc", **{k: v for k, v in key_fn(t).items() if k != "values"}}
                    try:
                        arr = np.asarray(da.hdc.zonal.mean(zda, [10, 20, 30], dtype=out_dtype).values)
                    except Exception as e:
                        ctx.violation(sub, key_fn(0), case_fn(0), f"zonal.mean on a {pix_dtype} raster with nodata {nd} raised {type(e).__name__}: {e}")
                        continue
                    ctx.count(sub, evaluations=T, nontrivial=T)
                    check_result(arr, mean, cnt, out_dtype, ctx, sub, key_fn, case_fn)
    ctx.sample(sub, {"raster": "2x2, every value assignment as time steps", "backends": ["numpy", "dask (time chunks of 7)"],
                     "markers_not_representable_in_float32": [1e20, -9999.9, 2147483647, 99999999]})


def value_dtypes(ctx):
    """Value rasters of every numeric dtype (do_mean is not restricted by a signature): all zone assignments of a
    2x2 raster x all words over a four-letter alphabet that spans the whole range of the dtype, first pixel smaller /
    larger than later ones, nodata at either end of the range."""
    zm = _zonal()
    sub = "value_dtypes"
    P, shape = 4, (2, 2)
    fams = {
        "uint8": (255, [255, 0, 200, 7]), "uint16": (65535, [65535, 0, 40000, 7]), "uint32": (0, [0, 1, 4000000000, 9]),
        "int8": (-128, [-128, 127, -5, 3]), "int32": (-2 ** 31, [-2 ** 31, 2 ** 31 - 1, -7, 5]), "int64": (-9999, [-9999, 2 ** 40, -2 ** 40, 5]),
        "int16": (-32768, [-32768, 32767, -32767, 11]), "float64": (-9999.0, [-9999.0, 7.5, -3.25, 1e6 + 0.5]),
    }
    zone_alphabet = np.array([0, 1, ZND])
    zidx = sse.word_indices(3, P)
    # markers that the float32 output dtype cannot represent exactly (the comparison with the marker must happen in
    # the raster's own precision)
    extra = [("int32", 2147483647, [2147483647, -7, 5, 1000000]), ("int64", 99999999, [99999999, -7, 5, 2 ** 40]),
             ("float64", 1e20, [1e20, 7.5, -3.25, 1e6 + 0.5]), ("float64", -9999.9, [-9999.9, 7.5, -3.25, -9999.0]),
             ("uint32", 4294967295, [4294967295, 1, 4000000000, 9])]
    for dt, (nd, alphabet) in list(fams.items()) + [(d, (n_, a)) for d, n_, a in extra]:
        vidx = sse.word_indices(4, P)
        values = np.asarray(alphabet, dtype=np.float64)[vidx]
        T = values.shape[0]
        pixels = np.asarray(alphabet).astype(dt)[vidx].reshape((T,) + shape)
        valid = vidx != 0
        for zi in zidx:
            zones = zone_alphabet[zi]
            zr = zones.astype("int16").reshape(shape)
            mean = np.full((T, 2), np.nan)
            cnt = np.zeros((T, 2), dtype=np.int64)
            for z in range(2):
                m = zones == z
                c = valid[:, m].sum(axis=1)
                sm = np.where(valid[:, m], values[:, m], 0).sum(axis=1)       # exact: |values| <= 2^40, four cells
                with np.errstate(all="ignore"):
                    mean[:, z] = np.where(c > 0, sm / np.maximum(c, 1), np.nan)
                cnt[:, z] = c
            for out_dtype in ("float32", "float64"):
                key_fn = lambda t: {"value_dtype": dt, "nodata": nd, "zones": zones.tolist(), "values": values[t].tolist(), "dtype": out_dtype}
                case_fn = lambda t: {"kind": "vdt"}
                try:
                    res = zm.do_mean(pixels, zr, 2, nd, ZND, getattr(np, out_dtype))
                except Exception as e:
                    ctx.violation(sub, key_fn(0), case_fn(0), f"do_mean on a {dt} raster raised {type(e).__name__}: {e}")
                    continue
                check_result(res, mean, cnt, out_dtype, ctx, sub, key_fn, case_fn)
                ctx.count(sub, evaluations=T, states=T, traces_validated_against_impl=T, nontrivial=T)
    ctx.sample(sub, {"dtypes": list(fams), "raster": "2x2", "zones": "all assignments over {0, 1, zone-nodata}", "values": "all words over 4 letters spanning the dtype"})


def joint_zones(ctx):
    """Several zonal means of ONE lazy cube over different zone rasters (same shape, dtype, ids and fill value),
    evaluated in one graph - dask.compute(a, b), one Dataset - must each be the mean over their own zones."""
    import dask
    import pandas as pd
    import xarray as xr
    sub = "joint_zones"
    P, shape = 4, (2, 2)
    vals_alphabet = [ND, 7, -3]
    vidx = sse.word_indices(len(vals_alphabet), P)
    values = np.asarray(vals_alphabet, dtype=np.float64)[vidx]
    T = values.shape[0]
    time = pd.date_range("2000-01-01", periods=T, freq="D")
    rasters = [np.array(z) for z in ([0, 0, 1, 1], [0, 1, 0, 1], [1, 1, 1, ZND], [2, 0, ZND, 1], [0, 0, 0, 0])]
    refs = [reference(values, z, 3, False) for z in rasters]
    zdas = [xr.DataArray(z.astype("int16").reshape(shape), dims=("y", "x"), attrs={"nodata": ZND}) for z in rasters]
    n = 0
    for chunks in ({"time": 7, "y": -1, "x": -1}, {"time": -1, "y": -1, "x": -1}):
        da = xr.DataArray(values.astype("int16").reshape((T,) + shape), dims=("time", "y", "x"), coords={"time": time}, attrs={"nodata": ND}, name="v").chunk(chunks)
        for kw in ({}, {"name": "zm"}, {"name": "zm", "dtype": "float64"}):
            out_dtype = kw.get("dtype", "float32")
            lazies = [da.hdc.zonal.mean(z, [10, 20, 30], **kw) for z in zdas]
            for how in ("dask.compute", "Dataset"):
                if how == "dask.compute":
                    res = dask.compute(*lazies)
                else:
                    ds = xr.Dataset({f"r{i}": r for i, r in enumerate(lazies)}).compute()
                    res = [ds[f"r{i}"] for i in range(len(lazies))]
                for i, r in enumerate(res):
                    n += 1
                    key_fn = lambda t: {"zones": rasters[i].tolist(), "values": values[t].tolist(), "kwargs": {k: str(v) for k, v in kw.items()}, "how": how, "position": i}
                    check_result(np.asarray(r.values), refs[i][0], refs[i][1], out_dtype, ctx, sub, key_fn, lambda t: {"kind": "joint_zones"})
    ctx.count(sub, evaluations=n * T, states=n, traces_validated_against_impl=n, nontrivial=n * T)
    ctx.sample(sub, {"zone_rasters": [z.tolist() for z in rasters], "evaluation": ["dask.compute(*results)", "one Dataset"], "names": [None, "zm"]})


def attr_histories(ctx):
    """zonal.mean on long-lived objects whose nodata attributes (of the value cube, and of the zone raster) are
    edited in place between calls."""
    import pandas as pd
    import xarray as xr
    from .. import histories
    sub = "attr_histories"
    time = pd.date_range("2000-01-01", periods=3, freq="D")
    vals = np.array([[[5, 0], [7, -9999]], [[0, 0], [3, 7]], [[7, 7], [-9999, 2]]], dtype="int16")
    zones = np.array([[0, 1], [1, 0]], dtype="int16")
    same = lambda a, b: np.array_equal(a, b, equal_nan=True)

    def make_v():
        return xr.DataArray(vals.copy(), dims=("time", "y", "x"), coords={"time": time}, name="v")

    zfix = xr.DataArray(zones.copy(), dims=("y", "x"), attrs={"nodata": 255})
    h = histories.explore(make_v, "nodata", [histories.ABSENT, -9999, 0, 7], lambda da: np.asarray(da.hdc.zonal.mean(zfix, [0, 1]).values).copy(), same, 3, ctx, sub,
                          "zonal.mean[value cube attrs]")

    # the zone raster: its own accessor object is not used by zonal.mean, the attribute is read from it on every call
    vfix = xr.DataArray(vals.copy(), dims=("time", "y", "x"), coords={"time": time}, name="v", attrs={"nodata": -9999})

    def make_z():
        return xr.DataArray(zones.copy(), dims=("y", "x"))

    h += histories.explore(make_z, "nodata", [histories.ABSENT, 255, 0, 1], lambda z: np.asarray(vfix.hdc.zonal.mean(z, [0, 1]).values).copy(), same, 3, ctx, sub,
                           "zonal.mean[zone raster attrs]")
    ctx.note_add("attr_histories", h)
    # data edited in place between calls (a float cube that had no NaN gets one, a nodata cell, a plain change): the
    # next call on the same object sees the object as it is now
    import itertools
    fvals = np.array([[[5.0, 1.5], [7.0, 2.0]], [[0.5, 0.25], [3.0, 7.0]], [[7.0, 7.5], [9.0, 2.0]]])
    edits = {"NaN at (1,0,1)": ((1, 0, 1), np.nan), "nodata at (0,1,0)": ((0, 1, 0), -9999.0), "NaN at (2,1,1)": ((2, 1, 1), np.nan), "value at (0,0,0)": ((0, 0, 0), 42.0)}
    for dtype in ("float64", "float32"):
        for seq in itertools.chain(itertools.permutations(edits, 1), itertools.permutations(edits, 2), itertools.permutations(edits, 3)):
            obj = xr.DataArray(fvals.astype(dtype).copy(), dims=("time", "y", "x"), coords={"time": time}, name="v", attrs={"nodata": -9999})
            obj.hdc.zonal.mean(zfix, [0, 1])
            for step, e in enumerate(seq):
                cell, val = edits[e]
                obj.values[cell] = val
                fresh = xr.DataArray(obj.values.copy(), dims=("time", "y", "x"), coords={"time": time}, name="v", attrs={"nodata": -9999})
                got, exp = np.asarray(obj.hdc.zonal.mean(zfix, [0, 1]).values), np.asarray(fresh.hdc.zonal.mean(zfix, [0, 1]).values)
                ctx.count(sub, evaluations=1, states=1, transitions=1, nontrivial=1)
                if not np.array_equal(got, exp, equal_nan=True):
                    ctx.violation(sub, {"what": "in-place edit", "history": list(seq[:step + 1]), "dtype": dtype}, {"kind": "attr_history"},
                                  f"zonal.mean on one {dtype} object after the in-place edits {list(seq[:step + 1])} (a call after each) gives {got.tolist()}, "
                                  f"a fresh object with the same data gives {exp.tolist()}")
                    break
    ctx.sample(sub, {"attr": "nodata", "values_cube": ["<absent>", -9999, 0, 7], "values_zones": ["<absent>", 255, 0, 1], "depth": 3, "in_place_edits": list(edits)})


def run(ctx):
    zm = _zonal()
    zm.do_mean(np.zeros((1, 1, 1), "int16"), np.zeros((1, 1), "int16"), 1, ND, ZND, np.float32)
    zm.do_mean(np.zeros((1, 1, 1), "int16"), np.zeros((1, 1), "int16"), 1, ND, ZND, np.float64)
    zm.do_mean(np.zeros((1, 1, 1), "float32"), np.zeros((1, 1), "int16"), 1, ND, ZND, np.float32)
    zm.do_mean(np.zeros((1, 1, 1), "float32"), np.zeros((1, 1), "int16"), 1, ND, ZND, np.float64)
    maxP = 6 if ctx.thorough() else 5
    shapes = {1: (1, 1), 2: (1, 2), 3: (3, 1), 4: (2, 2), 5: (1, 5), 6: (2, 3)}
    tasks = []
    for P in range(maxP, 0, -1):
        nz = 4 ** P
        step = 64 if P >= 5 else 256
        for isfloat in (False, True):
            if isfloat and P >= (6 if ctx.thorough() else 5):
                continue  # 4^P x 4^P: float inputs one pixel shorter
            for lo in range(0, nz, step):
                tasks.append((P, shapes[P], lo, min(nz, lo + step), isfloat, ctx.thorough()))
    ctx.pmap(_small_task, tasks)
    ctx.note("max_pixels_int", maxP)
    large_zones(ctx)
    many_zones_and_perms(ctx)
    zone_dtypes(ctx)
    zone_counts(ctx)
    value_dtypes(ctx)
    accessor(ctx)
    joint_zones(ctx)
    attr_histories(ctx)
    from . import spell_common
    spell_common.run(ctx, "C16")



def replay(sub, case, p):
    if case.get("kind") == "spelling":
        from . import spell_common
        spell_common.run(p, "C16")
        return
    zm = _zonal()
    if case["kind"] == "small":
        shape = tuple(case["shape"])
        values = np.asarray([[np.nan if v == "nan" else v for v in case["values"]]], dtype=np.float64)
        zones = np.asarray(case["zones"])
        pix = values.astype("float32" if case["float"] else "int16").reshape((1,) + shape)
        if case["float"]:
            pix = np.where(np.isnan(pix), np.float32(ND), pix)
        mean, cnt = reference(values, zones, case["num_zones"], case["float"])
        res = zm.do_mean(pix, zones.astype("int16").reshape(shape), case["num_zones"], ND, ZND, getattr(np, case["dtype"]))
        check_result(res, mean, cnt, case["dtype"], p, sub, lambda t: {}, lambda t: case)
    elif case["kind"] == "large":
        large_zones(p)
    elif case["kind"] == "zdt":
        zone_dtypes(p)
    elif case["kind"] == "zone_counts":
        zone_counts(p, only=case["K"])
    elif case["kind"] == "joint_zones":
        joint_zones(p)
    elif case["kind"] == "vdt":
        value_dtypes(p)
    elif case["kind"] == "attr_history":
        attr_histories(p)
    elif case["kind"] == "perm":
        many_zones_and_perms(p)
    else:
        accessor(p)

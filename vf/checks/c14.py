"""C14 — no kernel reads or writes outside its arrays on in-contract input; every output is written.

Bounded exhaustive exploration of boundary-sized inputs for every kernel, executed in a child process whose
kernels are compiled with NUMBA_BOUNDSCHECK=1 (an out-of-bounds index raises IndexError instead of silently
reading or corrupting memory).  Every gufunc call is made twice into caller-owned output buffers pre-filled
with the byte patterns 0x55 and 0xAA: an element the kernel did not write differs between the two results.
"""
from __future__ import annotations

import importlib
import itertools
import os
import pickle
import subprocess
import sys
import tempfile

import numpy as np

from .. import core, sse

LEVEL = "exploration"
RULE = ("per kernel: every boundary size (minimum lengths, single pixel / group / zone, window == length, all missing, "
        "one valid) x every validity / mark / label pattern inside the bound; non-trivial = input at a boundary of the "
        "contract (minimum length, window == length, empty group member set impossible, all-missing, single valid)")
ASSUMPTIONS = [
    "NUMBA_BOUNDSCHECK=1 instruments every array index in nopython code of the kernels compiled in the child process; "
    "negative indices that wrap around are legal Python/NumPy semantics and are not reported",
    "contract as stated in the property: smoother series of length >= 2, group / zone ids in 0..n-1, window in 1..len, "
    "srange with >= 2 entries, contiguous labels and template length >= 4 with as many marks as observations",
]

ND = -3000


def sentinel(shape, dtype, byte):
    a = np.full(int(np.prod(shape)) * np.dtype(dtype).itemsize, byte, dtype=np.uint8)
    return a.view(dtype).reshape(shape)


class Runner:
    def __init__(self, p):
        self.p = p

    def call(self, sub, name, fn, ins, outs, desc, boundary=False):
        """fn(*ins, *outs) with outs given as [(shape, dtype), ...]; two sentinel fills must agree."""
        res = []
        for byte in (0x55, 0xAA):
            bufs = [sentinel(s, d, byte) for s, d in outs]
            try:
                fn(*ins, *bufs)
            except IndexError as e:
                self.p.violation(sub, {"kernel": name, "input": desc}, {"kind": "oob", "kernel": name, "input": desc},
                                 f"{name} indexed outside an array (IndexError under NUMBA_BOUNDSCHECK=1: {e}) for {desc}")
                return
            except Exception as e:
                self.p.violation(sub, {"kernel": name, "input": desc, "exception": type(e).__name__}, {"kind": "oob", "kernel": name, "input": desc},
                                 f"{name} raised {type(e).__name__}: {e} for in-contract input {desc}")
                return
            res.append([b.copy() for b in bufs])
        self.p.count(sub, evaluations=1, nontrivial=int(boundary))
        for k, (a, b) in enumerate(zip(*res)):
            if a.tobytes() != b.tobytes():
                self.p.violation(sub, {"kernel": name, "input": desc, "what": "unwritten output"}, {"kind": "oob", "kernel": name, "input": desc},
                                 f"{name}: output {k} depends on the previous buffer contents (element not written) for {desc}: {a.tolist()} vs {b.tolist()}")
                return

    def call_ret(self, sub, name, fn, ins, desc, boundary=False):
        """njit function returning its result: must not raise IndexError; repeated calls equal."""
        try:
            r1 = fn(*ins)
            r2 = fn(*ins)
        except IndexError as e:
            self.p.violation(sub, {"kernel": name, "input": desc}, {"kind": "oob", "kernel": name, "input": desc},
                             f"{name} indexed outside an array (IndexError under NUMBA_BOUNDSCHECK=1: {e}) for {desc}")
            return
        except ZeroDivisionError:
            # value-level failure on degenerate but in-contract data is another property's business (C08)
            self.p.count(sub, evaluations=1)
            return
        except Exception as e:
            self.p.violation(sub, {"kernel": name, "input": desc, "exception": type(e).__name__}, {"kind": "oob", "kernel": name, "input": desc},
                             f"{name} raised {type(e).__name__}: {e} for in-contract input {desc}")
            return
        self.p.count(sub, evaluations=1, nontrivial=int(boundary))
        a = [np.asarray(v) for v in (r1 if isinstance(r1, tuple) else (r1,))]
        b = [np.asarray(v) for v in (r2 if isinstance(r2, tuple) else (r2,))]
        for u, v in zip(a, b):
            if u.tobytes() != v.tobytes():
                self.p.violation(sub, {"kernel": name, "input": desc, "what": "nondeterministic"}, {"kind": "oob", "kernel": name, "input": desc},
                                 f"{name}: repeated calls differ for {desc}")
                return


def sections(thorough):
    maxn = 8 if thorough else 7
    maxL = 9 if thorough else 8
    return [f"smooth:{n}" for n in range(maxn, 1, -1)] + [f"tint:{L}" for L in range(maxL, 3, -1)] + ["grp:6", "grp:5", "grp:4", "zonal", "rolling", "misc"]


def explore(p, thorough, section):
    """Runs inside the bounds-checked child process (one section per process)."""
    kind, _, arg = section.partition(":")
    arg = int(arg) if arg else None
    import hdc.algo  # noqa: F401
    ops = importlib.import_module("hdc.algo.ops")
    st = importlib.import_module("hdc.algo.ops.stats")
    zm = importlib.import_module("hdc.algo.ops.zonal")
    ws2d = importlib.import_module("hdc.algo.ops.ws2d").ws2d
    ac = importlib.import_module("hdc.algo.ops.autocorr")
    R = Runner(p)
    maxn = 8 if thorough else 7
    letters = [float(ND), 10.0, 90.0]
    # ---- smoothers -------------------------------------------------------------------------------
    for n in ([arg] if kind == "smooth" else []):
        idx = sse.word_indices(3, n)
        Y = np.asarray(letters)[idx]
        N = Y.shape[0]
        nv = (idx != 0).sum(axis=1)
        bd = bool(n <= 3)
        desc = f"all {N} words over {{ND,10,90}} of length {n}"
        R.call("smoothers", "ws2dgu", ops.ws2dgu, (Y, 10.0, float(ND)), [((N, n), "int16")], desc, bd)
        R.call("smoothers", "ws2dpgu", ops.ws2dpgu, (Y, 10.0, float(ND), 0.9), [((N, n), "int16")], desc, bd)
        for nl in (2, 3, 4):
            sr = np.arange(nl, dtype=np.float64) - 1.0
            d2 = desc + f", srange of {nl} entries"
            R.call("smoothers", "ws2doptv", ops.ws2doptv, (Y, float(ND), sr), [((N, n), "int16"), ((N,), "float64")], d2, bd or nl == 2)
            R.call("smoothers", "ws2doptvp", ops.ws2doptvp, (Y, float(ND), 0.9, sr), [((N, n), "int16"), ((N,), "float64")], d2, bd or nl == 2)
            for rb in (False, True):
                R.call("smoothers", "ws2dwcv", ops.ws2dwcv, (Y, float(ND), sr, rb), [((N, n), "int16"), ((N,), "float64")], d2 + f", robust={rb}", bd or nl == 2)
                R.call("smoothers", "ws2dwcvp", ops.ws2dwcvp, (Y, float(ND), 0.9, sr, rb), [((N, n), "int16"), ((N,), "float64")], d2 + f", robust={rb}", bd or nl == 2)
        for lc in (0.2, 0.9, float("nan")):
            R.call("smoothers", "ws2doptvplc", ops.ws2doptvplc, (Y.astype("int16"), float(ND), 0.9, lc), [((N, n), "int16"), ((N,), "float64")], desc + f", lc={lc}", bd)
        # per-word calls for the njit core (weights from validity, >= 2 valid)
        if n <= 6:
            for j in range(N):
                if nv[j] >= 2:
                    w = (idx[j] != 0).astype(np.float64)
                    R.call_ret("smoothers", "ws2d", ws2d, (np.where(w > 0, Y[j], 0.0), 10.0, w), f"y={Y[j].tolist()}", n <= 3)
        # (t,y,x) prange kernel, tiny cubes
        if n <= 5:
            cube = np.ascontiguousarray(Y.astype("int16").T.reshape(n, N, 1))
            R.call_ret("smoothers", "ws2doptvplc_tyx", importlib.import_module("hdc.algo.ops.ws2doptvplc").ws2doptvplc_tyx, (cube, 0.9, ND), desc + " as a (t,y,x) cube", bd)
            wcvp = importlib.import_module("hdc.algo.ops.ws2dwcvp")._ws2dwcvp
            optvp = importlib.import_module("hdc.algo.ops.ws2doptvp")._ws2doptvp
            sr = np.array([-1.0, 0.0, 1.0])
            for j in range(N):
                if nv[j] >= 5 or (nv[j] >= 2 and n <= 4):
                    w = (idx[j] != 0).astype(np.float64)
                    yy = np.where(w > 0, Y[j], 0.0)
                    R.call_ret("smoothers", "_ws2doptvp", optvp, (yy, w, 0.9, sr), f"y={Y[j].tolist()}")
                    if nv[j] >= 5:
                        R.call_ret("smoothers", "_ws2dwcvp", wcvp, (yy, w, 0.9, sr, True), f"y={Y[j].tolist()}")
    if kind == "smooth" and arg == 4:
        p.sample("smoothers", {"words": "all over {ND,10,90}, length 2..%d" % maxn, "srange_lengths": [2, 3, 4]})
    # ---- tinterpolate ----------------------------------------------------------------------------
    maxL = 9 if thorough else 8
    for L in ([arg] if kind == "tint" else []):
        for marks in itertools.product([0, 1], repeat=L):
            nobs = sum(marks)
            if nobs < 2:
                continue
            tmpl = np.asarray(marks, dtype=np.float64)
            x = (np.arange(nobs) * 7 + 3).astype("int16")[None, :]
            for cuts in itertools.product([0, 1], repeat=L - 1):
                if L >= 8 and sum(cuts) not in (0, 1, L - 1, L - 2) and (hash(cuts) % 7):
                    continue
                labels = (np.cumsum([0] + list(cuts)) + 5).astype(np.int32)
                nl = int(labels[-1] - 4)
                R.call("tinterpolate", "tinterpolate", ops.tinterpolate, (x, tmpl, labels, np.zeros(nl, "u1")), [((1, nl), "int16")],
                       f"template {list(marks)}, labels {labels.tolist()}", L == 4 or nobs == 2 or nl in (1, L))
    if kind == "tint" and arg == 4:
        p.sample("tinterpolate", {"template_lengths": [4, maxL], "marks": "every pattern with >= 2 marks", "labelings": "contiguous"})
    # ---- zonal ------------------------------------------------------------------------------------
    for nr, nc in (itertools.product((1, 2, 3), (1, 2, 3)) if kind == "zonal" else []):
        P = nr * nc
        if P > (9 if thorough else 6):
            continue
        for nz in (1, 2, 3):
            zvals = list(range(nz)) + [255]
            for za in itertools.product(zvals, repeat=P):
                zr = np.asarray(za, dtype="int16").reshape(nr, nc)
                pix = ((np.arange(2 * P) * 13) % 7 - 2).astype("int16").reshape(2, nr, nc)
                pix[0, 0, 0] = -9999
                for dt in (np.float32, np.float64):
                    R.call_ret("zonal", "do_mean", zm.do_mean, (pix, zr, nz, -9999, 255, dt), f"raster {nr}x{nc}, zones {list(za)}, num_zones {nz}", P == 1 or nz == 1)
    if kind == "zonal":
        p.sample("zonal", {"rasters": "1x1..3x3", "zones": "1..3 plus the nodata zone, every assignment"})
    # ---- stats ------------------------------------------------------------------------------------
    for n in (range(1, maxn + 2) if kind == "rolling" else []):
        idx = sse.word_indices(3, n) if n <= 7 else sse.word_indices(3, 7)
        n_ = idx.shape[1]
        X = np.asarray([-9999, 3, 8])[idx]
        N = X.shape[0]
        for w in range(1, n_ + 1):
            for dt in ("int16", "int64", "float32"):
                R.call("stats", "rolling_sum", st.rolling_sum, (X.astype(dt), w, -9999), [((N, n_), "float32")], f"all words of length {n_}, window {w}, {dt}", w in (1, n_))
        if n_ >= 2:
            R.call("stats", "lroo", ops.lroo, ((idx[:, :] == 1).astype("uint8"),), [((N,), "uint32" if _lroo_out() == "uint32" else _lroo_out())], f"all words of length {n_}", n_ == 2)
    for n in ((range(1, 5) if arg == 4 else [arg]) if kind == "grp" else []):
        idx = sse.word_indices(3, n)
        X = np.asarray([-9999, 3, 8])[idx]
        N = X.shape[0]
        for k in (1, 2, 3):
            if k > n:
                continue
            for lab in sse.surjective_labelings(n, k):
                g = np.asarray(lab, dtype="int16")
                for dt in ("float32", "int16", "int32", "int64"):
                    R.call("stats", "mean_grp", st.mean_grp, (X.astype(dt), g, k, -9999), [((N, n), "float32")], f"all words of length {n}, labels {list(lab)}, {dt}", k == n or k == 1)
                sizes = [int((g == q).sum()) for q in range(k)]
                pairs = [[(a, b) for a in range(s) for b in range(a + 1, s + 1)] for s in sizes]
                for combo in itertools.product(*pairs):
                    ci = np.asarray(combo, dtype="int16").reshape(k, 2)
                    # index behaviour depends on labels and calibration pairs, not on the values: a thinned word set
                    # keeps the product (labeling x calibration pairs) complete
                    Xs = X[:: max(1, N // 27)]
                    for dt in ("int16", "float32"):
                        R.call("stats", "gammastd_grp", st.gammastd_grp, (np.where(Xs == -9999, -9999, np.abs(Xs) % 50).astype(dt), g, k, -9999, ci), [((Xs.shape[0], n), "int16")],
                               f"{Xs.shape[0]} words of length {n}, labels {list(lab)}, calibration {ci.tolist()}, {dt}", k == n)
    for n in (range(2, 9) if kind == "misc" else []):
        idx = sse.word_indices(3, n) if n <= 7 else sse.word_indices(3, 7)
        n_ = idx.shape[1]
        X = np.asarray([-9999, 3, 8])[idx].astype("int16")
        N = X.shape[0]
        R.call_ret("stats", "autocorr", ac.autocorr, (X.reshape(N, 1, n_), -9999), f"all words of length {n_}", n_ == 2)
        R.call_ret("stats", "autocorr_tyx", ac.autocorr_tyx, (np.ascontiguousarray(X.T.reshape(n_, N, 1)), -9999), f"all words of length {n_}", n_ == 2)
        R.call_ret("stats", "autocorr(float)", ac.autocorr, (np.where(X == -9999, np.nan, X).astype("float64").reshape(N, 1, n_),), f"all words of length {n_}", n_ == 2)
        Xp = np.abs(X)
        R.call("stats", "_mann_kendall_trend_gu", st._mann_kendall_trend_gu, (Xp,), [((N,), "float32"), ((N,), "float32"), ((N,), "float32"), ((N,), "int8")], f"all words of length {n_}", n_ == 2)
        R.call("stats", "_mann_kendall_trend_gu_nd", st._mann_kendall_trend_gu_nd, (X, -9999.0), [((N,), "float32"), ((N,), "float32"), ((N,), "float32"), ((N,), "int8")], f"all words of length {n_}", n_ == 2)
        R.call_ret("stats", "mann_kendall_trend_yxt", st.mann_kendall_trend_yxt, (Xp.reshape(N, 1, n_),), f"all words of length {n_}", n_ == 2)
        for a in range(n_):
            for b in range(a + 1, n_ + 1):
                R.call_ret("stats", "gammastd_yxt", st.gammastd_yxt, (np.where(X == -9999, -9999, X + 1).reshape(N, 1, n_), -9999, a, b), f"all words of length {n_}, calibration [{a},{b})", b - a == 1 or b - a == n_)
    if kind == "misc":
        p.sample("stats", {"kernels": ["rolling_sum", "lroo", "mean_grp", "gammastd_grp", "autocorr", "autocorr_tyx", "_mann_kendall_trend_gu(_nd)", "mann_kendall_trend_yxt", "gammastd_yxt"]})
    p.note("boundscheck_env", os.environ.get("NUMBA_BOUNDSCHECK"))
    # self-test of the instrumentation with a probe of our own (independent of the library's source)
    import numba

    @numba.njit
    def _probe(a, i):
        return a[i]
    try:
        _probe(np.zeros(3), 5)
        p.note("boundscheck_selftest", "FAILED: an out-of-bounds read in nopython code did not raise IndexError")
    except IndexError:
        p.note("boundscheck_selftest", "ok (out-of-bounds read in a probe kernel raises IndexError)")


def _lroo_out():
    """Output dtype of the lroo gufunc as compiled (discovered, not assumed)."""
    import hdc.algo  # noqa: F401
    ops = importlib.import_module("hdc.algo.ops")
    try:
        r = ops.lroo(np.zeros((1, 3), "uint8"))
        return str(np.asarray(r).dtype)
    except Exception:
        return "uint32"   # the exploration itself will report why lroo cannot be called


def child_main(tier, section, outfile):
    p = core.Partial()
    explore(p, tier == "thorough", section)
    with open(outfile, "wb") as fh:
        pickle.dump(p, fh)


def run_children(tier, secs, merge_into):
    env = dict(os.environ)
    env["NUMBA_BOUNDSCHECK"] = "1"
    env["NUMBA_NUM_THREADS"] = "2"
    with tempfile.TemporaryDirectory(dir=os.environ.get("VERIF_SCRATCH", "/var/tmp")) as td:
        pending = list(enumerate(secs))
        running = []
        results = {}
        while pending or running:
            while pending and len(running) < core.NPROC:
                i, sec = pending.pop(0)
                out = os.path.join(td, f"c14_{i}.pkl")
                pr = subprocess.Popen([sys.executable, "-W", "ignore", "-m", "vf.checks.c14", tier, sec, out], env=env, cwd=core.ROOT,
                                      stdout=subprocess.PIPE, stderr=subprocess.PIPE, text=True)
                running.append((pr, sec, out))
            pr, sec, out = running.pop(0)
            so, se = pr.communicate()
            if pr.returncode != 0 or not os.path.exists(out):
                for q, _, _ in running:
                    q.kill()
                raise RuntimeError(f"bounds-checked child for section {sec} failed (rc={pr.returncode}):\n{se[-3000:]}")
            with open(out, "rb") as fh:
                results[sec] = pickle.load(fh)
        for sec in secs:
            merge_into.merge(results[sec])


def run(ctx):
    secs = sections(ctx.thorough())
    run_children(ctx.tier, secs, ctx)
    ctx.note("sections", secs)
    if not str(ctx.notes.get("boundscheck_selftest", "")).startswith("ok"):
        raise RuntimeError(f"bounds checking is not active in the child: {ctx.notes.get('boundscheck_selftest')}")


def replay(sub, case, p):
    q = core.Partial()
    run_children("quick", sections(False), q)
    for v in q.violations:
        if v["case"].get("kernel") == case.get("kernel"):
            p.violations.append(v)
            p.nviol += 1


if __name__ == "__main__":
    child_main(sys.argv[1], sys.argv[2], sys.argv[3])

"""C13 — compiled kernels compute what their Python source says.

Translation validation by bounded exhaustive differential execution: every @njit / @guvectorize program found
in hdc.algo.ops is run compiled and as its own source under CPython (callees left compiled, numba types mapped
to NumPy dtypes) on the exhaustive word sets of the property-specific checks, per supported dtype; the SciPy
special functions bound into nopython code are compared with scipy.special on a 200 x 200 log grid.
"""
from __future__ import annotations

import importlib
import itertools
import os
import math
import pkgutil
import warnings

import numpy as np

from .. import interp, sse

LEVEL = "translation_validation"
RULE = ("programs = every object with py_func / __wrapped__ in hdc.algo.ops.* (legacy module whit.py excluded: it is not "
        "imported by the package); inputs = exhaustive word sets per program and dtype; non-trivial = in-domain input "
        "(the interpreter neither overflows a NumPy scalar nor raises)")
ASSUMPTIONS = [
    "inputs on which the CPython execution itself raises (NumPy scalar overflow under errstate(over='raise'), math.log(0)) "
    "have no defined reference and are counted as out-of-domain",
    "callees of the interpreted program stay compiled (the semantics of numba's own .py_func)",
    "tolerances as in the statement: 1e-9 relative (integer / float64 inputs), 1e-5 (float32), integer outputs equal except "
    "where the interpreted run recorded a rounding tie",
]

ND = -3000


def discover():
    import hdc.algo  # noqa: F401
    import hdc.algo.ops as opspkg
    progs = {}
    for m in pkgutil.iter_modules(opspkg.__path__):
        if m.name in ("whit",):
            continue
        mod = importlib.import_module(f"hdc.algo.ops.{m.name}")
        for name, obj in vars(mod).items():
            fn = interp.pyfunc_of(obj)
            if fn is None or getattr(fn, "__module__", None) != mod.__name__:
                continue
            progs[f"{m.name}.{name}"] = (obj, fn)
    return progs


def words(k, n, alphabet, stride=1):
    idx = sse.word_indices(k, n)[::stride]
    return np.asarray(alphabet)[idx], idx


def close(a, b, rtol):
    a = np.asarray(a, dtype=np.float64)
    b = np.asarray(b, dtype=np.float64)
    if a.shape != b.shape:
        return False
    with np.errstate(all="ignore"):
        return bool(np.all((np.abs(a - b) <= rtol * np.maximum(np.abs(a), np.abs(b)) + 1e-300) | (np.isnan(a) & np.isnan(b)) | (a == b)))


# interpreter-only errors that are differences of the two run-times, not of the program: math.log(0) raises where
# compiled code continues with -inf, and NumPy warns about reductions over all-NaN slices
# ... and a finite result that the output dtype cannot hold (the period mean of a curve overshooting between
# -32768 and 32767) is outside the domain of both worlds: Python refuses the store, compiled code wraps
BENIGN_INTERPRETER_ERRORS = ("math domain error", "All-NaN slice", "All-NaN axis", "Mean of empty slice", "out of bounds for int")


class LayoutDependence(Exception):
    pass


class Cmp:
    """Compare one compiled call with one interpreted call."""

    def __init__(self, p, prog):
        self.p = p
        self.prog = prog

    def run(self, compiled, interpreted, desc, rtol=1e-9, int_outputs=(), lam_tie=None):
        sub = "programs"
        interp.ROUNDLOG.reset()
        ref_exc = None
        with warnings.catch_warnings():
            warnings.simplefilter("error", RuntimeWarning)
            # NumPy semantics of an overflow are "warn and wrap" (integers) / "warn and give inf" (floats): the value
            # is what the source computes under the interpreter and is compared like any other
            warnings.filterwarnings("ignore", message="overflow encountered", category=RuntimeWarning)
            try:
                with np.errstate(over="warn", invalid="ignore", divide="ignore", under="ignore"):
                    r = interpreted()
            except (FloatingPointError, RuntimeWarning, ValueError, ZeroDivisionError, OverflowError) as e:
                ref_exc = e
            except Exception as e:  # noqa: BLE001
                # anything else (UnboundLocalError, IndexError, ...) counts as the program's own behaviour only when it
                # is raised by the program's source, not by the shims that stand in for Numba
                tb, last = e.__traceback__, None
                while tb is not None:
                    last = tb.tb_frame.f_code.co_filename
                    tb = tb.tb_next
                if last is not None and os.path.realpath(last).startswith(os.path.realpath(os.environ.get("VERIF_REPO_DIR", "/repo")) + os.sep):
                    ref_exc = e
                else:
                    raise
        try:
            c = compiled()
            c_exc = None
        except LayoutDependence as e:
            self.p.count(sub, evaluations=1)
            self.p.violation(sub, {"program": self.prog, "input": desc, "what": "layout"}, {"kind": "tv", "program": self.prog, "input": desc},
                             f"{self.prog}: the compiled kernel depends on the memory layout of its input ({e}) for {desc}; the source under NumPy semantics does not")
            return
        except Exception as e:
            c_exc = e
        self.p.count(sub, evaluations=1, disagreements_checked=1)
        if ref_exc is not None:
            if c_exc is not None and type(c_exc) is type(ref_exc):
                self.p.count(sub, nontrivial=1)
            elif c_exc is None and not any(t in str(ref_exc) for t in BENIGN_INTERPRETER_ERRORS):
                # the source refuses this input under the interpreter (e.g. a scalar store of NaN into an integer
                # cell) while the compiled kernel carries on: the two worlds disagree
                self.p.violation(sub, {"program": self.prog, "input": desc, "what": "interpreter raises"}, {"kind": "tv", "program": self.prog, "input": desc},
                                 f"{self.prog}: the interpreted source raises {type(ref_exc).__name__}: {ref_exc} but the compiled kernel returns "
                                 f"{[np.asarray(v).tolist() for v in (c if isinstance(c, tuple) else (c,))]!r:.200} for {desc}")
            else:
                self.p.count(sub, out_of_domain=1)
            return
        if c_exc is not None:
            self.p.violation(sub, {"program": self.prog, "input": desc}, {"kind": "tv", "program": self.prog, "input": desc},
                             f"{self.prog}: compiled raised {type(c_exc).__name__}: {c_exc} but the interpreted source returned {r!r:.200} for {desc}")
            return
        self.p.count(sub, nontrivial=1)
        rs = r if isinstance(r, tuple) else (r,)
        cs = c if isinstance(c, tuple) else (c,)
        if len(rs) != len(cs):
            self.p.violation(sub, {"program": self.prog, "input": desc}, {"kind": "tv", "program": self.prog, "input": desc},
                             f"{self.prog}: number of results differs ({len(cs)} vs {len(rs)}) for {desc}")
            return
        for k, (a, b) in enumerate(zip(cs, rs)):
            a_, b_ = np.asarray(a), np.asarray(b)
            if k in int_outputs or a_.dtype.kind in "iu":
                ok = a_.shape == b_.shape and (np.array_equal(a_.astype(np.int64), b_.astype(np.int64)) or
                                               (interp.ROUNDLOG.ties and np.abs(a_.astype(np.int64) - b_.astype(np.int64)).max() <= 1))
            else:
                ok = close(a_, b_, rtol)
            if not ok and k == 1 and lam_tie is not None and lam_tie(float(a_), float(b_), np.array_equal(np.asarray(cs[0]), np.asarray(rs[0]))):
                self.p.count(sub, selection_ties=1)
                ok = True
            if not ok:
                self.p.violation(sub, {"program": self.prog, "input": desc, "output": k}, {"kind": "tv", "program": self.prog, "input": desc},
                                 f"{self.prog}: compiled {np.asarray(a).tolist()} != interpreted source {np.asarray(b).tolist()} for {desc}")
                return


def strided(a):
    """A view with the same values as the 1-d array `a` but a non-unit stride (NumPy semantics are layout
    independent; a kernel compiled for a contiguous layout only is not)."""
    if not isinstance(a, np.ndarray) or a.ndim != 1 or a.size < 2:
        return a
    buf = np.empty(a.size * 3, dtype=a.dtype)
    buf[...] = np.asarray(-77).astype(a.dtype) if a.dtype.kind != "b" else False
    v = buf[1::3][: a.size]
    v[...] = a
    return v


def gu_pair(obj, fi, core_args, out_specs):
    """Compiled gufunc call on one word vs the interpreted kernel body writing into fresh outputs
    (scalar gufunc outputs are 1-element arrays inside the kernel body)."""
    def compiled():
        r = obj(*core_args)
        r = tuple(np.asarray(x) for x in r) if isinstance(r, tuple) else np.asarray(r)
        r2 = obj(*[strided(a) for a in core_args])
        r2 = tuple(np.asarray(x) for x in r2) if isinstance(r2, tuple) else np.asarray(r2)
        same = all(np.array_equal(a, b, equal_nan=True) for a, b in zip(r if isinstance(r, tuple) else (r,), r2 if isinstance(r2, tuple) else (r2,)))
        if not same:
            raise LayoutDependence(f"strided input gives {[np.asarray(x).tolist() for x in (r2 if isinstance(r2, tuple) else (r2,))]}, "
                                   f"contiguous input gives {[np.asarray(x).tolist() for x in (r if isinstance(r, tuple) else (r,))]}")
        return r

    def interpreted_():
        outs = [np.zeros(s, dtype=d) for s, d in out_specs]
        fi(*core_args, *outs)
        res = tuple(o[0] if s == (1,) else o for o, (s, d) in zip(outs, out_specs))
        return res if len(res) > 1 else res[0]
    return compiled, interpreted_


def generators(thorough):
    """name -> function(obj, fi, C) running the differential cases for that program."""
    S = 1 if thorough else 3          # stride thinning of word sets in the quick tier
    sr = np.arange(-2.0, 1.2, 0.4)
    W7, I7 = words(4, 7, [float(ND), -50.0, 10.0, 90.0], stride=11 * S)
    W5, I5 = words(4, 5, [float(ND), -50.0, 10.0, 90.0], stride=S)
    G = {}

    def smoother(name, args_fn, nout, tie_fn=None):
        def run(obj, fi, C):
            for W in (W5, W7):
                for y in W:
                    n = len(y)
                    args = args_fn(y)
                    specs = [((n,), "int16")] + ([((1,), "float64")] if nout == 2 else [])
                    c, i = gu_pair(obj, fi, args, specs)
                    C.run(c, i, f"y={y.tolist()} args={[a.tolist() if hasattr(a, 'tolist') else a for a in args[1:]]}",
                          lam_tie=(lambda a, b, same_band, y=y: tie_fn(y, a, b, same_band)) if tie_fn else None)
            # missing cells written as NaN / +inf / -inf (in-domain spellings of "missing" for float input); the integer
            # stored for such a cell by a pass-through branch is platform-defined, so only cells that are finite in the
            # input are compared there
            if name.endswith("ws2doptvplc"):
                return
            for y in W5[:: 2]:
                if not (y == ND).any():
                    continue
                for mark in (np.nan, np.inf, -np.inf):
                    ym = np.where(y == ND, mark, y)
                    n = len(ym)
                    args = args_fn(ym)
                    specs = [((n,), "int16")] + ([((1,), "float64")] if nout == 2 else [])
                    c, i = gu_pair(obj, fi, args, specs)
                    fin = np.isfinite(ym)

                    def masked(f, fin=fin):
                        def g():
                            r = f()
                            t = r if isinstance(r, tuple) else (r,)
                            t = (np.where(fin, np.asarray(t[0]), 0),) + tuple(t[1:])
                            return t if isinstance(r, tuple) else t[0]
                        return g
                    C.run(masked(c), masked(i), f"y={ym.tolist()} args={[a.tolist() if hasattr(a, 'tolist') else a for a in args[1:]]}",
                          lam_tie=(lambda a, b, same_band, y=y: tie_fn(y, a, b, same_band)) if tie_fn else None)
        G[name] = run

    from ..oracle import select
    from . import c04, c05

    def vc_tie(grid, p_env):
        def f(y, la, lb, same_band):
            yy = y[None, :].astype(np.float64)
            valid = yy != ND
            if p_env is None:
                adm = select.vcurve_sym(yy, valid, grid)[2]
            else:
                adm = None
                for mode in ("warm", "cold", "conv"):
                    a = select.vcurve_asym(yy, valid, grid, p_env, mode)[2]
                    adm = a if adm is None else adm | a
            ka, kb = c04.k_of(np.array([la]), grid)[0], c04.k_of(np.array([lb]), grid)[0]
            return ka >= 0 and kb >= 0 and bool(adm[0, ka]) and bool(adm[0, kb])
        return f

    def gcv_tie(robust):
        def f(y, la, lb, same_band):
            if robust:
                return same_band   # degenerate robust criterion: any grid lambda gives the same band (see C06)
            yy = y[None, :].astype(np.float64)
            valid = yy != ND
            res = select.gcv(yy, valid, sr)
            adm = res["eig"][2] | res["exact"][2]
            ka, kb = c05.k_of_grid(np.array([la]), sr)[0], c05.k_of_grid(np.array([lb]), sr)[0]
            return ka >= 0 and kb >= 0 and bool(adm[0, ka]) and bool(adm[0, kb])
        return f

    smoother("ws2dgu.ws2dgu", lambda y: (y, 10.0, float(ND)), 1)
    smoother("ws2dpgu.ws2dpgu", lambda y: (y, 10.0, float(ND), 0.9), 1)
    smoother("ws2doptv.ws2doptv", lambda y: (y, float(ND), sr), 2, vc_tie(sr, None))
    smoother("ws2doptvp.ws2doptvp", lambda y: (y, float(ND), 0.9, sr), 2, vc_tie(sr, 0.9))
    smoother("ws2doptvplc.ws2doptvplc", lambda y: (y.astype("int16"), float(ND), 0.9, 0.7), 2, vc_tie(np.round(np.arange(-2, 1.2, 0.2), 10), 0.9))
    smoother("ws2dwcv.ws2dwcv", lambda y: (y, float(ND), sr, True), 2, gcv_tie(True))
    smoother("ws2dwcvp.ws2dwcvp", lambda y: (y, float(ND), 0.9, sr, False), 2, gcv_tie(False))

    def core_ws2d(obj, fi, C):
        for W in (W5, W7):
            for y in W:
                w = (y != ND).astype(np.float64)
                if w.sum() < 2:
                    continue
                yy = np.where(w > 0, y, 0.0)
                for lam in (1e-3, 1.0, 1e4):
                    C.run(lambda: obj(yy, lam, w), lambda: fi(yy, lam, w), f"y={yy.tolist()} w={w.tolist()} lambda={lam}")
    G["ws2d.ws2d"] = core_ws2d

    def helper_optvp(obj, fi, C):
        for y in W7:
            w = (y != ND).astype(np.float64)
            if w.sum() < 2:
                continue
            yy = np.where(w > 0, y, 0.0)
            C.run(lambda: obj(yy, w, 0.9, sr), lambda: fi(yy, w, 0.9, sr), f"y={yy.tolist()} w={w.tolist()}",
                  lam_tie=lambda a, b, same, y=y: vc_tie(sr, 0.9)(y, a, b, same))
    G["ws2doptvp._ws2doptvp"] = helper_optvp

    def helper_wcvp(obj, fi, C):
        for y in W7:
            w = (y != ND).astype(np.float64)
            if w.sum() < 5:
                continue
            yy = np.where(w > 0, y, 0.0)
            for rb in (False, True):
                C.run(lambda: obj(yy, w, 0.9, sr, rb), lambda: fi(yy, w, 0.9, sr, rb), f"y={yy.tolist()} w={w.tolist()} robust={rb}",
                      lam_tie=lambda a, b, same, y=y, rb=rb: gcv_tie(rb)(y, a, b, same))
    G["ws2dwcvp._ws2dwcvp"] = helper_wcvp

    def tyx(obj, fi, C):
        for rows in (1, 2, 3):
            blk = W5[:: max(1, len(W5) // (rows * 4))][: rows * 4].astype("int16")
            cube = np.ascontiguousarray(blk.T.reshape(5, rows, 4))
            C.run(lambda: obj(cube, 0.9, ND), lambda: fi(cube, 0.9, ND), f"(t,y,x) cube of {rows}x4 pixels {blk.tolist()}")
    G["ws2doptvplc.ws2doptvplc_tyx"] = tyx

    # ---- autocorr
    A8, _ = words(4, 8, [-1, 0, 1, 5], stride=7 * S)
    A4, _ = words(4, 4, [-1, 0, 1, 5])

    def ac_int(obj, fi, C):
        for W in (A4, A8):
            for x in W.astype("int16"):
                C.run(lambda: obj(x, -1), lambda: fi(x, -1), f"x={x.tolist()} nodata=-1")
        # markers that the data dtype cannot represent: the source compares every sample with the marker as given
        for dt, nd_, fill in (("int16", 65535, -1), ("int16", 65539, 3), ("uint8", 256, 0), ("int32", 2 ** 32 + 5, 5)):
            for x in A4:
                xx = np.where(x == -1, fill, x).astype(dt)
                C.run(lambda: obj(xx, nd_), lambda: fi(xx, nd_), f"x={xx.tolist()} {dt} nodata={nd_} (not representable in {dt})")
        big = np.array([3000, 4000, -3000, 5000, 7000, 6500, 200], dtype="int16")   # int16 products overflow in CPython
        C.run(lambda: obj(big, -3000), lambda: fi(big, -3000), f"x={big.tolist()}")
    G["autocorr.autocorr_1d_int"] = ac_int

    def ac_float(obj, fi, C):
        for W in (A4, A8):
            for x in W:
                xf = np.where(x == -1, np.nan, x).astype(np.float64)
                C.run(lambda: obj(xf), lambda: fi(xf), f"x={xf.tolist()}")
                xf32 = xf.astype(np.float32)
                C.run(lambda: obj(xf32), lambda: fi(xf32), f"x(float32)={xf32.tolist()}", rtol=1e-5)
    G["autocorr.autocorr_1d_float"] = ac_float

    def ac_1d(obj, fi, C):
        for x in A8[::3]:
            xi = x.astype("int16")
            C.run(lambda: obj(xi, -1), lambda: fi(xi, -1), f"x={xi.tolist()} nodata=-1")
            xf = np.where(x == -1, np.nan, x).astype(np.float64)
            C.run(lambda: obj(xf), lambda: fi(xf), f"x={xf.tolist()} nodata=None")
    G["autocorr.autocorr_1d"] = ac_1d

    def ac_cube(layout):
        def run(obj, fi, C):
            blk = A8[::5][:24]
            for dt, nd in (("int16", -1), ("float64", None), ("float32", None)):
                b = blk.astype(dt) if nd is not None else np.where(blk == -1, np.nan, blk).astype(dt)
                cube = b.reshape(4, 6, 8) if layout == "yxt" else np.ascontiguousarray(b.T.reshape(8, 4, 6))
                args = (cube, nd) if nd is not None else (cube,)
                C.run(lambda: obj(*args), lambda: fi(*args), f"{layout} cube {dt} of 24 pixels", rtol=1e-6)
        return run
    G["autocorr.autocorr"] = ac_cube("yxt")
    G["autocorr.autocorr_tyx"] = ac_cube("tyx")

    # ---- lroo, tinterpolate, zonal
    def lroo(obj, fi, C):
        for n in (1, 2, 5, 9):
            for x in sse.word_indices(2, n)[:: S].astype("uint8"):
                od = np.asarray(obj(np.ones(2, "uint8"))).dtype
                C.run(lambda: both_layouts(obj, (x,)), lambda: _first(fi, x, od), f"x={x.tolist()}")
    G["lroo.lroo"] = lroo

    def tint(obj, fi, C):
        for tmpl in ((1, 0, 0, 1), (1, 0, 1, 1, 0), (0, 1, 0, 0, 1, 0, 1), (1, 1, 0, 0, 0, 1, 0, 1)):
            nobs = sum(tmpl)
            L = len(tmpl)
            X, _ = words(3, nobs, [-5, 7, 10000])
            for cuts in itertools.product([0, 1], repeat=L - 1):
                labels = (np.cumsum([0] + list(cuts)) + 3).astype(np.int32)
                nl = int(labels[-1] - 2)
                for x in X[:: 2 * S].astype("int16"):
                    t = np.asarray(tmpl, dtype=np.float64)
                    to = np.zeros(nl, "u1")
                    C.run(lambda: both_layouts(obj, (x, t, labels, to)), lambda: _out(fi, (x, t, labels, to), (nl,), "int16"),
                          f"x={x.tolist()} template={list(tmpl)} labels={labels.tolist()}")
    G["tinterpolate.tinterpolate"] = tint

    def zonal(obj, fi, C):
        for za in list(itertools.product([0, 1, 255], repeat=4))[:: S]:
            zr = np.asarray(za, dtype="int16").reshape(2, 2)
            for dt in ("int16", "float32"):
                pix = np.array([[5, -9999, 7, 2], [1, 1, -9999, 30]]).astype(dt).reshape(2, 2, 2)
                for od in (np.float32, np.float64):
                    C.run(lambda: obj(pix, zr, 2, -9999, 255, od), lambda: fi(pix, zr, 2, -9999, 255, od), f"zones={list(za)} {dt} out={od.__name__}",
                          rtol=1e-6 if od is np.float32 else 1e-9)
    G["zonal.do_mean"] = zonal

    # ---- stats
    P6 = np.array([p for n in (3, 5) for p in itertools.product(range(4), repeat=n)][:: S], dtype=object)

    def brentq(obj, fi, C):
        for s in np.logspace(-4, 1.5, 40 if not thorough else 200):
            a_est = (3 - s + math.sqrt((s - 3) ** 2 + 24 * s)) / (12 * s)
            C.run(lambda: obj(a_est * 0.6, a_est * 1.4, s), lambda: fi(a_est * 0.6, a_est * 1.4, s), f"xa={a_est*0.6!r} xb={a_est*1.4!r} s={s!r}")
        C.run(lambda: obj(1.0, 2.0, 5.0), lambda: fi(1.0, 2.0, 5.0), "no sign change")
    G["stats.brentq"] = brentq

    S5, _ = words(5, 5, [-9999, 0, 1, 7, 30], stride=S)

    def gammafit(obj, fi, C):
        for x in S5:
            for dt in ("int16", "float64", "float32"):
                xx = x.astype(dt)
                if dt == "float32" and len(set(v for v in x.tolist() if v > 0)) < 2:
                    continue   # degenerate fit (s = 0 in exact arithmetic): single-precision log noise decides, no reference
                C.run(lambda: obj(xx), lambda: fi(xx), f"x={xx.tolist()} {dt}", rtol=1e-4 if dt == "float32" else 1e-9)
    G["stats.gammafit"] = gammafit

    def nearly_constant(n, spread, base):
        k = np.arange(n)
        u = ((k * 7919) % 1009) / 504.0 - 1.0            # deterministic, in [-1, 1]
        return base * (1.0 + spread * u)

    def gammafit_flat(obj, fi, C):
        # s = log(mean) - mean(log) is ~ spread^2 / 2: the last bits of the two sums decide, so the ORDER in which
        # they are accumulated must be the same in both worlds (NumPy reductions are pairwise from 8 elements on)
        for n in (8, 9, 16, 33, 64, 200):
            for spread in (1e-2, 1e-3, 1e-4, 1e-5):
                for base in (1.0, 1200.0):
                    x = nearly_constant(n, spread, base)
                    C.run(lambda: obj(x), lambda: fi(x), f"nearly constant float64 series n={n} base={base} relative spread={spread}")
            xi = (12000 + (np.arange(n) * 7919) % 3).astype("int16")
            C.run(lambda: obj(xi), lambda: fi(xi), f"int16 series n={n} of 12000..12002")
    also_later = ("stats.gammafit", gammafit_flat)

    def gammastd_flat(obj, fi, C):
        for n in (9, 33, 64):
            for spread in (1e-3, 1e-5):
                x = nearly_constant(n, spread, 1200.0)
                C.run(lambda: obj(x, -9999, 0, n), lambda: fi(x, -9999, 0, n), f"nearly constant float64 series n={n} relative spread={spread} cal=[0,{n})", rtol=1e-7)
    also_later2 = ("stats.gammastd", gammastd_flat)

    def gammastd(obj, fi, C):
        for x in S5[::2]:
            for dt in ("int16", "float64"):
                xx = x.astype(dt)
                for (a, b) in ((0, 5), (1, 4), (0, 2)):
                    C.run(lambda: obj(xx, -9999, a, b), lambda: fi(xx, -9999, a, b), f"x={xx.tolist()} {dt} cal=[{a},{b})", rtol=1e-9)
        xx = np.array([3.0, 0.0, 9.0, 1.0, 4.0])
        C.run(lambda: obj(xx, -9999, 0, 5, 2.0, 1.5), lambda: fi(xx, -9999, 0, 5, 2.0, 1.5), "explicit alpha/beta")
    G["stats.gammastd"] = gammastd

    def gammastd_yxt(obj, fi, C):
        blk = S5[:: max(1, len(S5) // 24)][:24]
        for dt in ("int16", "float64", "float32"):
            cube = blk.astype(dt).reshape(4, 6, 5)
            for (a, b) in ((0, 5), (1, 4), (None, None)):
                C.run(lambda: obj(cube, -9999, a, b), lambda: fi(cube, -9999, a, b), f"cube {dt} 24 pixels cal=({a},{b})")
    G["stats.gammastd_yxt"] = gammastd_yxt

    def gammastd_grp(obj, fi, C):
        g = np.array([0, 1, 0, 1, 0, 1], dtype="int16")
        ci = np.array([[0, 3], [1, 3]], dtype="int16")
        X6, _ = words(5, 6, [-9999, 0, 1, 7, 30], stride=13 * S)
        for x in X6:
            for dt in ("int16", "float32"):
                xx = x.astype(dt)
                C.run(lambda: both_layouts(obj, (xx, g, 2, -9999, ci)), lambda: _out(fi, (xx, g, 2, -9999, ci), (6,), "int16"), f"x={xx.tolist()} {dt}")
    G["stats.gammastd_grp"] = gammastd_grp

    def mk_simple(name, call):
        def run(obj, fi, C):
            for pat in P6:
                for dt in ("int16", "float32", "float64"):
                    x = (np.asarray(pat) * 7 - 3).astype(dt)
                    call(obj, fi, C, x, f"x={x.tolist()} {dt}", 1e-5 if dt == "float32" else 1e-9)
        G[name] = run

    mk_simple("stats.mk_score", lambda obj, fi, C, x, d, r: C.run(lambda: obj(x), lambda: fi(x), d, rtol=r))
    mk_simple("stats.mk_variance_s", lambda obj, fi, C, x, d, r: C.run(lambda: obj(x), lambda: fi(x), d, rtol=r))
    mk_simple("stats.mk_sens_slope", lambda obj, fi, C, x, d, r: C.run(lambda: obj(x), lambda: fi(x), d, rtol=r))
    mk_simple("stats.mann_kendall_trend_1d", lambda obj, fi, C, x, d, r: C.run(lambda: obj(x), lambda: fi(x), d, rtol=r))

    def mk_special(obj, fi, C):
        """Float series with infinities and NaN (ratios to a zero reference produce them): compiled and interpreted
        must agree on whatever the source says about them."""
        inf, nan = np.inf, np.nan
        for x in ([1.0, inf, 3.0, inf, 2.0], [inf, 1.0, inf, 5.0], [-inf, 2.0, -inf, 4.0, 1.0], [1.0, nan, 3.0, 2.0], [inf, -inf, 1.0, 2.0],
                  [1.0, 2.0, inf], [nan, inf, 1.0, 2.0, inf, 7.0], [inf, inf, inf], [3.0, 1.0, 2.0, inf, inf, 0.5]):
            for dt in ("float64", "float32"):
                xx = np.array(x, dtype=dt)
                C.run(lambda: obj(xx), lambda: fi(xx), f"x={xx.tolist()} {dt}", rtol=1e-5 if dt == "float32" else 1e-9)
    for nm in ("mk_score", "mk_variance_s", "mk_sens_slope", "mann_kendall_trend_1d"):
        prev = G[f"stats.{nm}"]
        G[f"stats.{nm}"] = (lambda prev: (lambda obj, fi, C: (prev(obj, fi, C), mk_special(obj, fi, C))))(prev)

    def mk_z(obj, fi, C):
        for s in range(-21, 22):
            for vs in (1.0, 8.666666666666666, 44.333333333333336, 0.5):
                C.run(lambda: obj(s, vs), lambda: fi(s, vs), f"s={s} vs={vs}")
    G["stats.mk_z_score"] = mk_z

    def mk_p(obj, fi, C):
        for z in np.linspace(-6, 6, 241):
            C.run(lambda: obj(z), lambda: fi(z), f"z={z!r}")
            C.run(lambda: obj(z, 0.01), lambda: fi(z, 0.01), f"z={z!r} alpha=0.01")
    G["stats.mk_p_value"] = mk_p

    def mk_yxt(obj, fi, C):
        blk = np.array([p for p in itertools.product(range(3), repeat=5)][:: 10], dtype=np.int64)[:24]
        for dt in ("int16", "float32"):
            cube = (blk * 5 - 2).astype(dt).reshape(4, 6, 5)
            C.run(lambda: obj(cube), lambda: fi(cube), f"cube {dt}", rtol=1e-6)
    G["stats.mann_kendall_trend_yxt"] = mk_yxt

    def mk_gu(nd):
        def run(obj, fi, C):
            for pat in P6:
                for dt in ("int16", "float32"):
                    x = (np.asarray(pat) * 7 - 3).astype(dt)
                    args = (x, -9999.0) if nd else (x,)
                    C.run(lambda: both_layouts(obj, args), lambda: _outs4(fi, args), f"x={x.tolist()} {dt}", rtol=1e-6)
            if nd:
                x = np.full(4, -9999, "int16")
                C.run(lambda: tuple(np.asarray(v) for v in obj(x, -9999.0)), lambda: _outs4(fi, (x, -9999.0)), "all nodata")
        return run
    G["stats._mann_kendall_trend_gu"] = mk_gu(False)
    G["stats._mann_kendall_trend_gu_nd"] = mk_gu(True)

    M5, _ = words(3, 5, [-9999, 3, 10], stride=S)

    def mean_grp(obj, fi, C):
        for lab in ((0, 0, 0, 0, 0), (0, 1, 0, 1, 1), (2, 0, 1, 0, 2)):
            g = np.asarray(lab, dtype="int16")
            k = len(set(lab))
            for x in M5:
                for dt in ("float32", "int16", "int32", "int64"):
                    xx = x.astype(dt)
                    C.run(lambda: both_layouts(obj, (xx, g, k, -9999)), lambda: _out(fi, (xx, g, k, -9999), (5,), "float32"), f"x={xx.tolist()} {dt} labels={list(lab)}", rtol=1e-6)
    G["stats.mean_grp"] = mean_grp

    def rolling(obj, fi, C):
        for x in M5:
            for w in (1, 2, 5):
                for dt in ("float32", "int16", "int64"):
                    xx = x.astype(dt)
                    C.run(lambda: both_layouts(obj, (xx, w, -9999)), lambda: _out(fi, (xx, w, -9999), (5,), "float32"), f"x={xx.tolist()} {dt} window={w}", rtol=1e-6)
    G["stats.rolling_sum"] = rolling

    # ---- the whole range of each integer input dtype (integer width and promotion differ between the two worlds)
    def also(name, extra):
        prev = G[name]
        G[name] = lambda obj, fi, C: (prev(obj, fi, C), extra(obj, fi, C))

    also(*also_later)
    also(*also_later2)

    # V-curve kernels on grids whose first interval holds the optimum (grid starting at lambda = 1, two-point grid)
    def vcurve_low(name, args_of, p_env):
        def run(obj, fi, C):
            for grid in (np.arange(0.0, 3.2, 0.4), np.array([0.0, 1.0]), np.array([2.0, 3.0, 4.0])):
                for y in W5[:: 3]:
                    n = len(y)
                    args = args_of(y, grid)
                    c, i = gu_pair(obj, fi, args, [((n,), "int16"), ((1,), "float64")])
                    C.run(c, i, f"y={y.tolist()} grid={grid.tolist()}", lam_tie=lambda a, b, same_band, y=y, grid=grid: vc_tie(grid, p_env)(y, a, b, same_band))
        also(name, run)
    vcurve_low("ws2doptv.ws2doptv", lambda y, g: (y, float(ND), g), None)
    vcurve_low("ws2doptvp.ws2doptvp", lambda y, g: (y, float(ND), 0.9, g), 0.9)
    E16, _ = words(5, 4, [-32768, -25000, 0, 30000, 32767], stride=S)
    E16b, _ = words(4, 5, [-32768, -3, 2, 32767], stride=3 * S)
    EU = {"uint8": [0, 3, 200, 255], "uint16": [0, 3, 40000, 65535], "int32": [-2 ** 31, -7, 5, 2 ** 31 - 1]}

    def ac_int_range(obj, fi, C):
        for x in E16.astype("int16"):
            C.run(lambda: obj(x, -32768), lambda: fi(x, -32768), f"x={x.tolist()} int16 nodata=-32768")
        for dt, vals in EU.items():
            for x in words(4, 4, vals, stride=S)[0].astype(dt):
                C.run(lambda: obj(x, vals[1]), lambda: fi(x, vals[1]), f"x={x.tolist()} {dt} nodata={vals[1]}")
    also("autocorr.autocorr_1d_int", ac_int_range)

    def ac_1d_range(obj, fi, C):
        for x in E16[::7].astype("int16"):
            C.run(lambda: obj(x, -32768), lambda: fi(x, -32768), f"x={x.tolist()} int16 nodata=-32768")
    also("autocorr.autocorr_1d", ac_1d_range)

    def ac_cube_range(layout):
        def run(obj, fi, C):
            b = E16[::5][:24].astype("int16")
            cube = b.reshape(4, 6, 4) if layout == "yxt" else np.ascontiguousarray(b.T.reshape(4, 4, 6))
            C.run(lambda: obj(cube, -32768), lambda: fi(cube, -32768), f"{layout} cube int16 over the whole int16 range", rtol=1e-6)
        return run
    also("autocorr.autocorr", ac_cube_range("yxt"))
    also("autocorr.autocorr_tyx", ac_cube_range("tyx"))

    def mk_range(call):
        def run(obj, fi, C):
            for x in E16b.astype("int16"):
                call(obj, fi, C, x, f"x={x.tolist()} int16 (whole range)")
        return run
    for nm in ("mk_score", "mk_variance_s", "mk_sens_slope", "mann_kendall_trend_1d"):
        also(f"stats.{nm}", mk_range(lambda obj, fi, C, x, d: C.run(lambda: obj(x), lambda: fi(x), d)))
    also("stats._mann_kendall_trend_gu", mk_range(lambda obj, fi, C, x, d: C.run(lambda: both_layouts(obj, (x,)), lambda: _outs4(fi, (x,)), d, rtol=1e-6)))
    also("stats._mann_kendall_trend_gu_nd", mk_range(lambda obj, fi, C, x, d: C.run(lambda: both_layouts(obj, (x, -32768.0)), lambda: _outs4(fi, (x, -32768.0)), d, rtol=1e-6)))

    def mk_yxt_range(obj, fi, C):
        cube = E16b[:24].astype("int16").reshape(4, 6, 5)
        C.run(lambda: obj(cube), lambda: fi(cube), "cube int16 over the whole int16 range", rtol=1e-6)
    also("stats.mann_kendall_trend_yxt", mk_yxt_range)

    def red_range(kind):
        def run(obj, fi, C):
            for dt, vals in (("int16", [-32768, -3, 2, 32767]), ("int32", EU["int32"]), ("int64", [-2 ** 62, -7, 5, 2 ** 62])):
                for x in words(4, 4, vals, stride=S)[0].astype(dt):
                    nd = vals[1]
                    if kind == "rolling":
                        for w in (1, 2, 4):
                            C.run(lambda: both_layouts(obj, (x, w, nd)), lambda: _out(fi, (x, w, nd), (4,), "float32"), f"x={x.tolist()} {dt} window={w} nodata={nd}", rtol=1e-6)
                    else:
                        g = np.array([0, 1, 0, 1], dtype="int16")
                        C.run(lambda: both_layouts(obj, (x, g, 2, nd)), lambda: _out(fi, (x, g, 2, nd), (4,), "float32"), f"x={x.tolist()} {dt} labels=[0,1,0,1] nodata={nd}", rtol=1e-6)
        return run
    also("stats.rolling_sum", red_range("rolling"))
    also("stats.mean_grp", red_range("mean_grp"))

    def zonal_range(obj, fi, C):
        zr = np.array([[0, 1], [0, 1]], dtype="int16")
        for dt, vals in (("int16", [-32768, -3, 2, 32767]), ("uint8", EU["uint8"]), ("uint16", EU["uint16"]), ("int32", EU["int32"])):
            for x in words(4, 4, vals, stride=S)[0].astype(dt):
                pix = x.reshape(1, 2, 2)
                for od in (np.float32, np.float64):
                    C.run(lambda: obj(pix, zr, 2, vals[1], 255, od), lambda: fi(pix, zr, 2, vals[1], 255, od), f"pixels={x.tolist()} {dt} nodata={vals[1]} out={od.__name__}",
                          rtol=1e-6 if od is np.float32 else 1e-9)
    also("zonal.do_mean", zonal_range)

    G16, _ = words(4, 5, [-9999, 0, 9, 32767], stride=S)

    def gamma_range(kind):
        def run(obj, fi, C):
            for x in G16.astype("int16"):
                if kind == "fit":
                    C.run(lambda: obj(x), lambda: fi(x), f"x={x.tolist()} int16 (up to 32767)")
                elif kind == "std":
                    C.run(lambda: obj(x, -9999, 0, 5), lambda: fi(x, -9999, 0, 5), f"x={x.tolist()} int16 (up to 32767) cal=[0,5)")
                else:
                    g = np.array([0, 0, 0, 0, 0], dtype="int16")
                    ci = np.array([[0, 5]], dtype="int16")
                    C.run(lambda: both_layouts(obj, (x, g, 1, -9999, ci)), lambda: _out(fi, (x, g, 1, -9999, ci), (5,), "int16"), f"x={x.tolist()} int16 (up to 32767)")
        return run
    also("stats.gammafit", gamma_range("fit"))
    also("stats.gammastd", gamma_range("std"))
    also("stats.gammastd_grp", gamma_range("grp"))

    def tint_range(obj, fi, C):
        tmpl = (1, 0, 1, 1, 0, 1)
        labels = np.array([3, 3, 4, 4, 5, 5], dtype=np.int32)
        for x in words(4, 4, [-32768, -3, 2, 32767], stride=S)[0].astype("int16"):
            t = np.asarray(tmpl, dtype=np.float64)
            to = np.zeros(3, "u1")
            C.run(lambda: both_layouts(obj, (x, t, labels, to)), lambda: _out(fi, (x, t, labels, to), (3,), "int16"), f"x={x.tolist()} int16 (whole range) template={list(tmpl)}")
    also("tinterpolate.tinterpolate", tint_range)

    def plc_range(obj, fi, C):
        grid = np.round(np.arange(-2, 1.2, 0.2), 10)
        for x in words(4, 6, [-32768, -20000, 100, 32767], stride=41 * S)[0].astype("int16"):
            args = (x, -32768.0, 0.9, 0.7)
            c, i = gu_pair(obj, fi, args, [((6,), "int16"), ((1,), "float64")])
            C.run(c, i, f"y={x.tolist()} int16 (whole range) nodata=-32768", lam_tie=lambda a, b, same, x=x: same)
    also("ws2doptvplc.ws2doptvplc", plc_range)
    return G


def both_layouts(obj, args):
    """Compiled gufunc on contiguous and on strided core arrays: identical results required."""
    r = obj(*args)
    r2 = obj(*[strided(a) for a in args])
    t1 = r if isinstance(r, tuple) else (r,)
    t2 = r2 if isinstance(r2, tuple) else (r2,)
    if not all(np.array_equal(np.asarray(a), np.asarray(b), equal_nan=True) for a, b in zip(t1, t2)):
        raise LayoutDependence(f"strided input gives {[np.asarray(x).tolist() for x in t2]}, contiguous input gives {[np.asarray(x).tolist() for x in t1]}")
    return tuple(np.asarray(v) for v in r) if isinstance(r, tuple) else np.asarray(r)


def _out(fi, args, shape, dtype):
    o = np.zeros(shape, dtype=dtype)
    fi(*args, o)
    return o


def _first(fi, x, dtype):
    o = np.zeros(1, dtype=dtype)
    fi(x, o)
    return o[0]


def _outs4(fi, args):
    outs = [np.zeros(1, "float32"), np.zeros(1, "float32"), np.zeros(1, "float32"), np.zeros(1, "int8")]
    fi(*args, *outs)
    return tuple(o[0] for o in outs)


def _prog_task(task, p):
    name, thorough = task
    progs = discover()
    obj, fn = progs[name]
    fi = interp.interpreted(fn)
    gen = generators(thorough).get(name)
    if gen is None:
        p.note_add("sum_uncovered_programs", 1)
        p.set_undecided(f"program:{name}", "no input generator for this program")
        return
    C = Cmp(p, name)
    try:
        gen(obj, fi, C)
    except (TypeError, AttributeError, NameError) as e:
        # the source cannot be executed by the shims any more (refactor): undecided, not a violation
        p.set_undecided(f"program:{name}", f"interpreted execution failed in the harness: {type(e).__name__}: {e}")
        return
    p.count("programs", programs=1)
    p.sample("programs", {"program": name})


def scipy_bindings(ctx):
    """digamma / gammainc / ndtri as bound into nopython code vs scipy.special in Python."""
    import numba
    import scipy.special as sc
    import hdc.algo.ops.stats  # noqa: F401  (registers the overloads)
    sub = "scipy_bindings"

    @numba.njit
    def h_digamma(x):
        out = np.empty_like(x)
        for i in range(x.size):
            out.flat[i] = sc.digamma(x.flat[i])
        return out

    @numba.njit
    def h_gammainc(a, x):
        out = np.empty_like(x)
        for i in range(x.size):
            out.flat[i] = sc.gammainc(a.flat[i], x.flat[i])
        return out

    @numba.njit
    def h_ndtri(x):
        out = np.empty_like(x)
        for i in range(x.size):
            out.flat[i] = sc.ndtri(x.flat[i])
        return out

    a = np.logspace(-3, 4, 200)
    x = np.logspace(-8, 5, 200)
    A, X = np.meshgrid(a, x)
    for name, got, exp in (
        ("digamma", h_digamma(np.logspace(-6, 6, 40000)), sc.digamma(np.logspace(-6, 6, 40000))),
        ("gammainc", h_gammainc(A, X), sc.gammainc(A, X)),
        ("ndtri", h_ndtri(np.concatenate([np.logspace(-300, -0.31, 20000), 1 - np.logspace(-16, -0.31, 20000)])),
         sc.ndtri(np.concatenate([np.logspace(-300, -0.31, 20000), 1 - np.logspace(-16, -0.31, 20000)]))),
    ):
        ctx.count(sub, evaluations=int(np.size(exp)), nontrivial=int(np.size(exp)), disagreements_checked=int(np.size(exp)))
        bad = ~((got == exp) | (np.abs(got - exp) <= 1e-12 * np.abs(exp)) | (np.isnan(got) & np.isnan(exp)))
        if bad.any():
            j = int(np.flatnonzero(bad)[0])
            ctx.violation(sub, {"function": name}, {"kind": "scipy", "function": name},
                          f"scipy.special.{name} inside nopython code returns {np.ravel(got)[j]!r}, scipy.special in Python {np.ravel(exp)[j]!r} (argument index {j})")
    ctx.sample(sub, {"functions": ["digamma", "gammainc", "ndtri"], "grid": "200 x 200 log grid (gammainc), 40000 points (digamma, ndtri)"})


def run(ctx):
    progs = discover()
    names = sorted(progs)
    ctx.note("programs_discovered", names)
    gens = generators(ctx.thorough())
    ctx.note("programs_without_generator", [n for n in names if n not in gens])
    ctx.pmap(_prog_task, [(n, ctx.thorough()) for n in names])
    scipy_bindings(ctx)


def replay(sub, case, p):
    if case.get("kind") == "tv":
        _prog_task((case["program"], False), p)
        p.violations[:] = [v for v in p.violations if v["case"].get("input") == case.get("input")] or p.violations
    else:
        scipy_bindings(p)

"""Framework self test: evidence files validate, explorers enumerate what they claim."""
from __future__ import annotations

import glob
import json
import os
import subprocess
import sys

from . import core, sse


def validate_evidence():
    """Validate every evidence file against the schema using the tooling venv's jsonschema."""
    files = sorted(glob.glob(os.path.join(core.EVIDENCE_DIR, "*.json")))
    schema = "/root/.vp/EVIDENCE.schema.json"
    if not files or not os.path.exists(schema):
        return 0
    code = (
        "import json,sys,jsonschema\n"
        "s=json.load(open(sys.argv[1]))\n"
        "bad=0\n"
        "for f in sys.argv[2:]:\n"
        "    try: jsonschema.validate(json.load(open(f)), s)\n"
        "    except Exception as e: bad+=1; print('INVALID',f,str(e)[:300])\n"
        "sys.exit(1 if bad else 0)\n"
    )
    for py in ("python3-vt", "/opt/veriftools/pyvenv/bin/python"):
        try:
            r = subprocess.run([py, "-c", code, schema] + files, capture_output=True, text=True)
        except FileNotFoundError:
            continue
        sys.stdout.write(r.stdout)
        return r.returncode
    print("selftest: jsonschema interpreter not found, evidence validation skipped")
    return 0


def explorer_units():
    # word enumeration is complete and its parent relation is the prefix relation
    for k in (2, 3, 5):
        for n in (1, 2, 3, 4):
            w = sse.word_indices(k, n)
            assert w.shape == (k ** n, n)
            assert len({tuple(r) for r in w.tolist()}) == k ** n
            if n > 1:
                par = sse.word_indices(k, n - 1)
                for i in (0, 1, k, k ** n - 1):
                    assert tuple(par[i // k]) == tuple(w[i][:-1])
    assert len(list(sse.compositions(4))) == 8
    assert len(list(sse.set_partitions_labelings(4, 4))) == 15  # Bell(4)
    assert len(list(sse.surjective_labelings(4, 2))) == 14
    # known-findings matcher: exact-field matching only
    f = {"findings": [{"property": "CXX", "subcheck": "s", "match": {"a": 1}, "what": "w"}]}
    assert core.match_finding("CXX", {"sub": "s", "key": {"a": 1, "b": 2}}, f)
    assert not core.match_finding("CXX", {"sub": "s", "key": {"a": 2}}, f)
    assert not core.match_finding("CXX", {"sub": "t", "key": {"a": 1}}, f)
    assert not core.match_finding("CYY", {"sub": "s", "key": {"a": 1}}, f)
    try:
        from .sched import threads
        threads.selftest()
    except ImportError:
        pass
    from . import histories
    histories.selftest()
    pool_survives_worker_death()
    return 0


def _pool_probe(task, p):
    import ctypes
    if task == 3:
        ctypes.string_at(0)          # segmentation fault inside a worker
    if task == 5:
        os._exit(7)
    p.count("t", evaluations=1)


def pool_survives_worker_death():
    """A worker that dies must neither hang the run nor go unnoticed."""
    c = core.Ctx("CXX", "quick", 0)
    c.pmap(_pool_probe, list(range(12)), nproc=4)
    assert c.subs["t"]["evaluations"] == 10, c.subs
    assert len(c.violations) == 2 and all(v["sub"] == "process_death" for v in c.violations), c.violations


def main():
    rc = explorer_units()
    rc |= validate_evidence()
    with open(os.path.join(core.ROOT, "MANIFEST.json")) as fh:
        man = json.load(fh)
    ids = [c["property_id"] for c in man["checks"]]
    assert len(ids) == len(set(ids))
    print(f"selftest: ok={rc == 0} checks_registered={len(ids)}")
    return rc

"""Argument spellings: the same request written with another Python / NumPy / pandas type for an argument.

The statement of every property is about the *value* of an argument (a window size, a date, a list of labels, a
grid of exponents), never about the type it happens to be stored in.  `explore` calls the operation once in its
canonical spelling and once per alternative spelling and requires identical results (values, dtype, dims; NaN equal
to NaN) - or the same kind of refusal.  Purely differential: no expected values.
"""
from __future__ import annotations

import warnings

import numpy as np


def _norm(r):
    import xarray as xr
    if isinstance(r, xr.Dataset):
        return {k: r[k].compute() for k in r.data_vars}
    if isinstance(r, xr.DataArray):
        return {"_": r.compute()}
    if isinstance(r, (list, tuple)):
        return {str(i): v for i, v in enumerate(r)}
    return {"_": r}


def _same(a, b):
    if set(a) != set(b):
        return f"variables {sorted(a)} vs {sorted(b)}"
    for k in a:
        x, y = a[k], b[k]
        xd, yd = getattr(x, "dims", None), getattr(y, "dims", None)
        if xd != yd:
            return f"{k}: dims {yd} vs {xd}"
        xv, yv = np.asarray(getattr(x, "values", x)), np.asarray(getattr(y, "values", y))
        if xv.dtype != yv.dtype:
            return f"{k}: dtype {yv.dtype} vs {xv.dtype}"
        if xv.shape != yv.shape or not np.array_equal(xv, yv, equal_nan=xv.dtype.kind in "fc"):
            return f"{k}: values differ"
    return None


def explore(p, sub, what, canonical, variants, materialise=None):
    """canonical: () -> result; variants: {spelling: () -> result}."""
    def run(f):
        with warnings.catch_warnings():
            warnings.simplefilter("ignore")
            try:
                r = f()
                if materialise is not None:
                    r = materialise(r)
                return ("ok", _norm(r))
            except Exception as e:  # noqa: BLE001
                return ("raise", f"{type(e).__name__}: {e}")
    ref = run(canonical)
    for name, f in variants.items():
        got = run(f)
        p.count(sub, evaluations=1, states=1, traces_validated_against_impl=1, nontrivial=1)
        if ref[0] == "raise" and got[0] == "raise":
            continue
        if ref[0] != got[0]:
            p.violation(sub, {"what": what, "spelling": name}, {"kind": "spelling", "what": what},
                        f"{what}: written as {name} the call {'raises ' + got[1] if got[0] == 'raise' else 'succeeds'} "
                        f"while the canonical spelling {'raises ' + ref[1] if ref[0] == 'raise' else 'succeeds'}")
            continue
        msg = _same(ref[1], got[1])
        if msg:
            p.violation(sub, {"what": what, "spelling": name}, {"kind": "spelling", "what": what},
                        f"{what}: written as {name} the result differs from the canonical spelling ({msg})")

"""Reference selection criteria (V-curve, generalised cross-validation) from their definitions,
with first-order float error bounds so that near-ties are recognised from the reference alone."""
from __future__ import annotations

import numpy as np

from . import pls

U = 2.3e-16


def _system(Y, lam, W):
    N, n = Y.shape
    P = pls.dtd(n).astype(np.float64)
    A = np.broadcast_to(np.asarray(lam, dtype=np.float64), (N,))[:, None, None] * P[None]
    i = np.arange(n)
    A = A.copy()
    A[:, i, i] += W
    return A


def _curve_error(A, Y):
    """Bound on the absolute error of any backward-stable float64 solve of A z = W y."""
    with np.errstate(all="ignore"):
        cond = np.linalg.cond(A)
    scale = np.abs(Y).max(axis=1) + 1.0
    return 16.0 * cond * U * scale


def fit_pen(Y, W, z, zerr):
    """log fit, log roughness and bounds on their absolute errors."""
    n = Y.shape[1]
    r = W * (Y - z)
    fit = (r * r).sum(axis=1)
    d2 = z[:, 2:] - 2 * z[:, 1:-1] + z[:, :-2]
    pen = (d2 * d2).sum(axis=1)
    with np.errstate(all="ignore"):
        lf = np.log(fit)
        lp = np.log(pen)
        ef = 2 * np.sqrt(n) * zerr / np.sqrt(fit)
        ep = 2 * np.sqrt(n) * 4 * zerr / np.sqrt(pen)
    ef = np.where(np.isfinite(ef) & (ef < 0.25), ef, np.inf)
    ep = np.where(np.isfinite(ep) & (ep < 0.25), ep, np.inf)
    return lf, lp, ef, ep


def vcurve_from(lf, lp, ef, ep, srange):
    """v_i = distance between successive (log fit, log pen) points per unit log10 lambda."""
    step = np.diff(np.asarray(srange, dtype=np.float64))
    with np.errstate(all="ignore"):
        v = np.hypot(np.diff(lf, axis=1), np.diff(lp, axis=1)) / step[None, :]
        verr = (ef[:, 1:] + ef[:, :-1] + ep[:, 1:] + ep[:, :-1]) / step[None, :]
    verr = np.where(np.isfinite(v), verr, np.inf)
    v = np.where(np.isfinite(v), v, 0.0)
    verr = np.maximum(verr, 1e-10 * (1 + np.abs(v)))
    return v, verr


def admissible_min(v, verr):
    """Index k is admissible when its interval reaches below the smallest upper bound."""
    upper = (v + verr).min(axis=1)
    return (v - verr) <= upper[:, None]


def vcurve_sym(Y, valid, srange):
    """Symmetric V-curve: returns (v, verr, admissible mask) of shape (N, len(srange)-1)."""
    W = valid.astype(np.float64)
    Yz = np.where(valid, Y, 0.0)
    nl = len(srange)
    N = Y.shape[0]
    lf = np.empty((N, nl)); lp = np.empty((N, nl)); ef = np.empty((N, nl)); ep = np.empty((N, nl))
    for k, l in enumerate(srange):
        lam = 10.0 ** float(l)
        A = _system(Yz, lam, W)
        z = np.linalg.solve(A, (W * Yz)[:, :, None])[:, :, 0]
        zerr = _curve_error(A, Yz)
        lf[:, k], lp[:, k], ef[:, k], ep[:, k] = fit_pen(Yz, W, z, zerr)
    v, verr = vcurve_from(lf, lp, ef, ep, srange)
    return v, verr, admissible_min(v, verr)


def vcurve_asym(Y, valid, srange, p, mode):
    """Asymmetric V-curve under one reading of 'the asymmetric curve at a grid lambda':
    mode 'warm'  - at most 10 reweighting passes per grid lambda, started from the previous grid
                   lambda's curve (zero for the first),
    mode 'cold'  - at most 10 passes from the zero curve at every grid lambda,
    mode 'conv'  - the converged expectile curve (up to 60 passes)."""
    W = valid.astype(np.float64)
    Yz = np.where(valid, Y, 0.0)
    nl = len(srange)
    N, n = Y.shape
    lf = np.empty((N, nl)); lp = np.empty((N, nl)); ef = np.empty((N, nl)); ep = np.empty((N, nl))
    z = np.zeros_like(Yz)
    for k, l in enumerate(srange):
        lam = 10.0 ** float(l)
        if mode != "warm":
            z = np.zeros_like(Yz)
        passes = 40 if mode == "conv" else 10
        active = np.arange(N)
        wa_all = np.zeros_like(Yz)
        prev_wa = np.full_like(Yz, -1.0)
        for _ in range(passes):
            wa = np.where(Yz[active] > z[active], p, 1 - p) * W[active]
            changed = (wa != prev_wa[active]).any(axis=1)
            wa_all[active] = wa
            prev_wa[active] = wa
            active = active[changed]
            if active.size == 0:
                break
            wa = wa_all[active]
            A = _system(Yz[active], lam, wa)
            z[active] = np.linalg.solve(A, (wa * Yz[active])[:, :, None])[:, :, 0]
        # error bound from the system that produced the final curve
        A = _system(Yz, lam, np.where(wa_all.sum(axis=1, keepdims=True) > 0, wa_all, W))
        zerr = _curve_error(A, Yz)
        lf[:, k], lp[:, k], ef[:, k], ep[:, k] = fit_pen(Yz, W, z, zerr)
    v, verr = vcurve_from(lf, lp, ef, ep, srange)
    return v, verr, admissible_min(v, verr)


def gcv(Y, valid, srange, weights=None):
    """GCV score sum w (y-z)^2 / (n (1 - trH/n)^2), n = sum of weights, under two definitions of trH:
    'eig'   - the eigenvalue approximation sum_k w_k / (w_k + lambda e_k^2), e_k = -2 + 2cos(k pi/m),
    'exact' - trace of the hat matrix (W + lambda D'D)^-1 W.
    Returns dict name -> (score, serr, admissible) each (N, len(srange))."""
    W = valid.astype(np.float64) if weights is None else weights
    Yz = np.where(valid, Y, 0.0)
    N, n = Y.shape
    nl = len(srange)
    e = -2 + 2 * np.cos(np.arange(n) * np.pi / n)
    e[0] = 1e-15
    res = {}
    sc = {"eig": np.empty((N, nl)), "exact": np.empty((N, nl))}
    se = {"eig": np.empty((N, nl)), "exact": np.empty((N, nl))}
    nw = W.sum(axis=1)
    for k, l in enumerate(srange):
        lam = 10.0 ** float(l)
        A = _system(Yz, lam, W)
        Ainv = np.linalg.inv(A)
        z = np.einsum("nij,nj->ni", Ainv, W * Yz)
        zerr = _curve_error(A, Yz)
        r = np.sqrt(W) * (Yz - z)
        wsse = (r * r).sum(axis=1)
        with np.errstate(all="ignore"):
            rel = 2 * np.sqrt(n) * zerr / np.sqrt(wsse)
        rel = np.where(np.isfinite(rel) & (rel < 0.25), rel, np.inf)
        tr_eig = (W / (W + lam * e[None, :] ** 2)).sum(axis=1)
        tr_exact = np.einsum("nii,ni->n", Ainv, W)
        for name, tr in (("eig", tr_eig), ("exact", tr_exact)):
            with np.errstate(all="ignore"):
                den = nw * (1 - tr / nw) ** 2
                s = wsse / den
                # relative error of the denominator from cancellation in 1 - tr/n
                drel = 2 * 64 * U / np.abs(1 - tr / nw)
            bad = ~np.isfinite(s)
            s = np.where(bad, np.inf, s)
            err = np.where(bad, np.inf, s * (rel + drel))
            sc[name][:, k] = s
            se[name][:, k] = np.maximum(err, 1e-12 * np.abs(np.where(bad, 0, s)))
    for name in sc:
        res[name] = (sc[name], se[name], admissible_min(np.where(np.isfinite(sc[name]), sc[name], 1e300),
                                                        np.where(np.isfinite(se[name]), se[name], 1e300)))
    return res

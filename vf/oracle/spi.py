"""Reference SPI from the definition: gamma maximum-likelihood fit, zero mixture, normal quantile.
Independent of hdc-algo: SciPy special functions and SciPy's Brent root finder on a wide bracket."""
from __future__ import annotations

import math

import numpy as np
import scipy.optimize as so
import scipy.special as sc

_FIT = {}


def mle(pos):
    """(alpha, beta, s) of the gamma MLE for the positive sample `pos` (sequence); None if undefined."""
    key = tuple(sorted(float(v) for v in pos))
    if key in _FIT:
        return _FIT[key]
    res = None
    if len(key) >= 1 and len(set(key)) >= 2:
        x = np.asarray(key, dtype=np.float64)
        mean = math.fsum(x) / len(x)
        mlog = math.fsum(np.log(x)) / len(x)
        s = math.log(mean) - mlog
        if s > 0:
            f = lambda a: math.log(a) - sc.digamma(a) - s
            lo, hi = 1e-12, 1e12
            if f(lo) > 0 > f(hi):
                a = so.brentq(f, lo, hi, xtol=1e-300, rtol=4 * np.finfo(float).eps, maxiter=500)
                for _ in range(2):  # Newton polish
                    d = 1.0 / a - sc.polygamma(1, a)
                    a = a - f(a) / d
                res = (float(a), mean / float(a), s, mean)
    _FIT[key] = res
    return res


def index_float(x, alpha, beta, p0):
    """Unrounded 1000 * ndtri(p0 + (1-p0) G(x; alpha, beta)) for an array x."""
    x = np.asarray(x, dtype=np.float64)
    with np.errstate(all="ignore"):
        cdf = p0 + (1 - p0) * sc.gammainc(alpha, x / beta)
        return 1000.0 * sc.ndtri(cdf)


def index_tail(x, alpha, beta, p0):
    """Same quantity evaluated through the tails (does not saturate where the CDF rounds to 0 or 1)."""
    x = np.asarray(x, dtype=np.float64)
    with np.errstate(all="ignore"):
        g = sc.gammainc(alpha, x / beta)
        gc = sc.gammaincc(alpha, x / beta)
        cdf = p0 + (1 - p0) * g
        sf = (1 - p0) * gc
        lo = sc.ndtri(cdf)
        hi = -sc.ndtri(sf)
        out = np.where(cdf > 0.5, hi, lo)
    return 1000.0 * out


def admissible(x, fit, p0, rel=1e-9):
    """Admissible integer interval [lo, hi] per element of x for alpha perturbed by +-rel."""
    alpha, beta, s, mean = fit
    vals = []
    for a in (alpha * (1 - rel), alpha, alpha * (1 + rel)):
        vals.append(index_float(x, a, mean / a, p0))
    v = np.array(vals)
    vmin, vmax = v.min(axis=0), v.max(axis=0)
    tie = 1e-6 + 1e-9 * np.abs(vmax)
    lo = np.round(vmin - tie)
    hi = np.round(vmax + tie)
    return lo, hi, v[1]

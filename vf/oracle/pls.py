"""Reference models for the penalised least-squares (Whittaker) problem.

Written from the definition: minimise sum w_i (y_i - z_i)^2 + lambda * sum (second differences)^2,
i.e. solve (W + lambda D'D) z = W y with D the (n-2) x n second-difference matrix.
Nothing here looks at hdc-algo's source.
"""
from __future__ import annotations

from fractions import Fraction as F

import numpy as np


def dtd_int(n):
    """D'D as an integer matrix built from the definition of D."""
    # P = sum_i d_i d_i' with d_i = e_i - 2 e_{i+1} + e_{i+2}  (accumulated directly: D'D is pentadiagonal,
    # a dense integer matmul would cost n^3)
    P = np.zeros((n, n), dtype=np.int64)
    c = (1, -2, 1)
    for i in range(n - 2):
        for a in range(3):
            for b in range(3):
                P[i + a, i + b] += c[a] * c[b]
    return P


_DTD = {}


def dtd(n):
    if n not in _DTD:
        _DTD[n] = dtd_int(n)
    return _DTD[n]


# ------------------------------------------------------------------ exact rational
def frac_matrix(w, lam):
    n = len(w)
    P = dtd(n)
    lam = F(lam)
    return [[(F(w[i]) if i == j else F(0)) + lam * int(P[i, j]) for j in range(n)] for i in range(n)]


def frac_solve_multi(A, B):
    """Gaussian elimination with exact Fractions. A: n x n, B: n x m. Returns n x m (list of rows)."""
    n = len(A)
    m = len(B[0])
    A = [row[:] for row in A]
    B = [row[:] for row in B]
    for c in range(n):
        piv = next((r for r in range(c, n) if A[r][c] != 0), None)
        if piv is None:
            raise ZeroDivisionError("singular system")
        if piv != c:
            A[c], A[piv] = A[piv], A[c]
            B[c], B[piv] = B[piv], B[c]
        inv = 1 / A[c][c]
        for r in range(c + 1, n):
            f = A[r][c] * inv
            if f:
                Ar, Ac = A[r], A[c]
                for k in range(c, n):
                    Ar[k] -= f * Ac[k]
                Br, Bc = B[r], B[c]
                for k in range(m):
                    Br[k] -= f * Bc[k]
    X = [[F(0)] * m for _ in range(n)]
    for r in range(n - 1, -1, -1):
        inv = 1 / A[r][r]
        for k in range(m):
            s = B[r][k]
            for j in range(r + 1, n):
                s -= A[r][j] * X[j][k]
            X[r][k] = s * inv
    return X


def frac_solve(y, lam, w):
    """Exact z for one right-hand side. y, w: sequences of Fraction-convertible numbers."""
    A = frac_matrix(w, lam)
    B = [[F(w[i]) * F(y[i])] for i in range(len(y))]
    return [r[0] for r in frac_solve_multi(A, B)]


def frac_irls(y, valid, lam, p, passes=10):
    """Asymmetric least squares from the statement, exact: start at the zero curve, weights p above /
    1-p otherwise, at most `passes` reweighting passes. Returns (curve, min nonzero |y-z| margin seen)."""
    n = len(y)
    p = F(p)
    z = [F(0)] * n
    margin = None
    prev_w = None
    for _ in range(passes):
        wa = [(p if y[i] > z[i] else 1 - p) if valid[i] else F(0) for i in range(n)]
        for i in range(n):
            if valid[i] and y[i] != z[i]:
                d = abs(y[i] - z[i])
                margin = d if margin is None or d < margin else margin
        if wa == prev_w:
            break
        z = frac_solve(y, lam, wa)
        prev_w = wa
    return z, margin


# ------------------------------------------------------------------ float64 with extended refinement
def batch_solve(Y, lam, W, refine=2):
    """Batched reference solve. Y, W: (N,n) float64; lam: scalar or (N,) float64.

    LAPACK solve followed by iterative refinement with residuals in long double (x87 80-bit), which
    brings the error to about cond * 1e-19 relative. Returns z as float64 (N,n) plus the refined
    long-double curve.
    """
    Y = np.asarray(Y, dtype=np.float64)
    W = np.asarray(W, dtype=np.float64)
    N, n = Y.shape
    P = dtd(n).astype(np.float64)
    lam_a = np.broadcast_to(np.asarray(lam, dtype=np.float64), (N,))
    A = lam_a[:, None, None] * P[None, :, :]
    idx = np.arange(n)
    A[:, idx, idx] += W
    b = W * Y
    z = np.linalg.solve(A, b[:, :, None])[:, :, 0]
    if refine:
        Pl = dtd(n).astype(np.longdouble)
        Al = lam_a.astype(np.longdouble)[:, None, None] * Pl[None, :, :]
        Al[:, idx, idx] += W.astype(np.longdouble)
        bl = W.astype(np.longdouble) * Y.astype(np.longdouble)
        zl = z.astype(np.longdouble)
        for _ in range(refine):
            r = bl - np.einsum("nij,nj->ni", Al, zl)
            dz = np.linalg.solve(A, r.astype(np.float64)[:, :, None])[:, :, 0]
            zl = zl + dz.astype(np.longdouble)
        return zl.astype(np.float64), zl
    return z, z.astype(np.longdouble)


def batch_irls(Y, valid, lam, p, passes=10, tau=1e-6):
    """Batched asymmetric least squares (reference). Returns (z (N,n), min_margin (N,)) where
    min_margin is the smallest non-negligible |y_i - z_i| over valid cells and passes that decided
    a weight (cells with an exact tie do not matter: the solution does not depend on their weight)."""
    Y = np.asarray(Y, dtype=np.float64)
    N, n = Y.shape
    z = np.zeros_like(Y)
    margin = np.full(N, np.inf)
    for k in range(passes):
        d = Y - z
        if k > 0:
            ad = np.where(valid, np.abs(d), np.inf)
            # exact zero (first pass from the zero curve, or an interpolated cell) is not a near-tie
            ad = np.where(ad == 0, np.inf, ad)
            margin = np.minimum(margin, ad.min(axis=1))
        wa = np.where(d > 0, p, 1 - p) * valid
        z, _ = batch_solve(Y, lam, wa)
    return z, margin


def second_diff_energy(z):
    d2 = z[..., 2:] - 2 * z[..., 1:-1] + z[..., :-2]
    return (d2 * d2).sum(axis=-1)

"""Runner core: counters, violations, known findings, evidence, replay files, fork pool."""
from __future__ import annotations

import json
import multiprocessing as mp
import os
import sys
import time
import traceback

ROOT = os.path.dirname(os.path.dirname(os.path.abspath(__file__)))
# runs against a scratch copy of the repository (seeded changes) must not overwrite the evidence of /repo
_SCRATCH = os.environ.get("VERIF_SCRATCH_EVIDENCE")
_OUT = ROOT if not _SCRATCH else os.path.join("/var/tmp/verif_scratch", str(os.getpid()) if _SCRATCH == "pid" else "shared")
EVIDENCE_DIR = os.path.join(_OUT, "evidence")
REPLAY_DIR = os.path.join(_OUT, "replays")
FINDINGS_FILE = os.path.join(ROOT, "known_findings.json")
NPROC = int(os.environ.get("VERIF_NPROC", "16"))
MAX_SAMPLES_PER_SUB = 3
MAX_VIOLATIONS_KEPT = 200


def jsonable(o):
    """Convert numpy / Fraction / tuple objects into plain JSON values."""
    import fractions

    try:
        import numpy as np
    except Exception:  # pragma: no cover
        np = None
    if isinstance(o, dict):
        return {str(k): jsonable(v) for k, v in o.items()}
    if isinstance(o, (list, tuple, set, frozenset)):
        return [jsonable(v) for v in o]
    if isinstance(o, fractions.Fraction):
        return f"{o.numerator}/{o.denominator}" if o.denominator != 1 else int(o)
    if np is not None:
        if isinstance(o, np.ndarray):
            return jsonable(o.tolist())
        if isinstance(o, np.generic):
            return jsonable(o.item())
    if isinstance(o, float):
        if o != o:
            return "nan"
        if o in (float("inf"), float("-inf")):
            return "inf" if o > 0 else "-inf"
        return o
    if isinstance(o, (int, str, bool)) or o is None:
        return o
    return repr(o)


class Partial:
    """Mergeable bag of counters / violations / samples (what a worker returns)."""

    def __init__(self):
        self.subs = {}        # sub -> {counter: int}
        self.violations = []  # dicts {sub, key, case, msg}
        self.samples = {}     # sub -> [case]
        self.notes = {}       # key -> value (last wins) or list (extended)
        self.undecided = {}   # sub -> reason
        self.nviol = 0

    # ---- counters
    def count(self, sub, **kw):
        d = self.subs.setdefault(sub, {})
        for k, v in kw.items():
            d[k] = d.get(k, 0) + int(v)

    def cmax(self, sub, **kw):
        d = self.subs.setdefault(sub, {})
        for k, v in kw.items():
            d[k] = max(d.get(k, v), v)

    def sample(self, sub, case):
        lst = self.samples.setdefault(sub, [])
        if len(lst) < MAX_SAMPLES_PER_SUB:
            lst.append(jsonable(case))

    def note(self, key, value):
        self.notes[key] = jsonable(value)

    def note_min(self, key, value):
        if value is None:
            return
        cur = self.notes.get(key)
        if cur is None or value < cur:
            self.notes[key] = value

    def note_max(self, key, value):
        if value is None:
            return
        cur = self.notes.get(key)
        if cur is None or value > cur:
            self.notes[key] = value

    def note_add(self, key, value):
        self.notes[key] = self.notes.get(key, 0) + value

    def outcome(self, sub, label):
        d = self.subs.setdefault(sub, {})
        o = d.setdefault("_outcomes", {})
        o[str(label)] = o.get(str(label), 0) + 1

    def set_undecided(self, sub, reason):
        self.undecided[sub] = str(reason)
        sys.stderr.write(f"[verif] sub-check {sub} undecided: {reason}\n")

    def violation(self, sub, key, case, msg):
        """Record a disagreement on one concrete, replayable case.

        key: dict of the case's identifying fields (used to match known findings)
        case: dict sufficient for replay (must be jsonable)
        """
        self.nviol += 1
        self.violations.append(
            {"sub": sub, "key": jsonable(key), "case": jsonable(case), "msg": str(msg)}
        )
        self._trim()

    def _trim(self):
        # keep the smallest counter-examples (shortest first) when there are many
        if len(self.violations) > 2 * MAX_VIOLATIONS_KEPT:
            self.violations.sort(key=lambda v: len(json.dumps(v["case"])))
            del self.violations[MAX_VIOLATIONS_KEPT:]

    # ---- merging
    def merge(self, other: "Partial"):
        for sub, d in other.subs.items():
            mine = self.subs.setdefault(sub, {})
            for k, v in d.items():
                if k == "_outcomes":
                    o = mine.setdefault("_outcomes", {})
                    for kk, vv in v.items():
                        o[kk] = o.get(kk, 0) + vv
                elif k.startswith("max_") or k.startswith("bound_"):
                    mine[k] = max(mine.get(k, v), v)
                else:
                    mine[k] = mine.get(k, 0) + v
        self.nviol += other.nviol
        self.violations.extend(other.violations)
        self._trim()
        for sub, lst in other.samples.items():
            mine = self.samples.setdefault(sub, [])
            for c in lst:
                if len(mine) < MAX_SAMPLES_PER_SUB:
                    mine.append(c)
        for k, v in other.notes.items():
            if k.startswith("min_"):
                self.note_min(k, v)
            elif k.startswith("max_"):
                self.note_max(k, v)
            elif k.startswith("sum_"):
                self.note_add(k, v)
            else:
                self.notes[k] = v
        self.undecided.update(other.undecided)


# ---------------------------------------------------------------- fork pool
_POOL_FN = None


def _pool_call(task):
    p = Partial()
    try:
        _POOL_FN(task, p)
    except Exception as e:
        if raised_in_repo(e):
            # the implementation raised on an input the explorer generated: that is an observation, not a
            # harness failure (explicit try/except at the call sites gives better messages where anticipated)
            p.violation("unexpected_exception", {"task": repr(task)[:300], "exception": type(e).__name__},
                        {"kind": "__task__", "task": repr(task)[:2000]},
                        f"hdc-algo raised {type(e).__name__}: {e} while exploring task {repr(task)[:200]}\n" + short_tb(e))
            return ("ok", p, None)
        return ("error", traceback.format_exc(), task if isinstance(task, (int, str, tuple)) else None)
    except BaseException:  # harness failure inside a worker
        return ("error", traceback.format_exc(), task if isinstance(task, (int, str, tuple)) else None)
    return ("ok", p, None)


def _worker_loop(conn):
    """Worker of Ctx.pmap: receives one task at a time, answers with (_pool_call result)."""
    while True:
        try:
            task = conn.recv()
        except (EOFError, OSError):
            return
        if task is None:
            return
        res = _pool_call(task)
        try:
            conn.send(res)
        except Exception:  # noqa: BLE001 - unpicklable result: report as a harness error
            conn.send(("error", traceback.format_exc(), None))


def raised_in_repo(e):
    """True when the innermost frames of the traceback are inside the repository under test."""
    repo = os.path.realpath(os.environ.get("VERIF_REPO_DIR", "/repo"))
    tb = e.__traceback__
    files = []
    while tb is not None:
        files.append(os.path.realpath(tb.tb_frame.f_code.co_filename))
        tb = tb.tb_next
    return any(f.startswith(repo + os.sep) for f in files)


def short_tb(e):
    lines = traceback.format_exception(type(e), e, e.__traceback__)
    return "".join(lines[-6:])[:1500]


class Ctx(Partial):
    def __init__(self, pid, tier, seed):
        super().__init__()
        self.pid = pid
        self.tier = tier
        self.seed = seed
        self.t0 = time.time()
        self.exhaustive = True
        self.caps = []
        self.assumptions = []
        self.rule = ""
        self.level = "exploration"

    def thorough(self):
        return self.tier == "thorough"

    def cap(self, text):
        """Record that an enumeration was cut short (evidence will not claim exhaustive)."""
        self.exhaustive = False
        self.caps.append(text)

    def assume(self, text):
        if text not in self.assumptions:
            self.assumptions.append(text)

    def pmap(self, fn, tasks, nproc=None):
        """Run fn(task, partial) for every task in forked workers, merge results.

        The parent must not have started Numba's parallel threading layer.
        """
        global _POOL_FN
        tasks = list(tasks)
        if not tasks:
            return
        nproc = min(nproc or NPROC, len(tasks))
        _POOL_FN = fn
        if nproc <= 1 or os.environ.get("VERIF_SERIAL"):
            for t in tasks:
                st, p, _ = _pool_call(t)
                if st == "error":
                    raise RuntimeError("worker failed:\n" + p)
                self.merge(p)
            return
        # own worker management instead of multiprocessing.Pool: when the code under test kills a worker process
        # (segmentation fault, abort) Pool silently loses the task and waits forever; here the parent knows which
        # task every worker holds, reports the death as an observation and carries on with a fresh worker
        import signal
        from multiprocessing.connection import wait
        ctx = mp.get_context("fork")
        task_timeout = float(os.environ.get("VERIF_TASK_TIMEOUT", "3600"))

        def spawn():
            parent, child = ctx.Pipe()
            pr = ctx.Process(target=_worker_loop, args=(child,), daemon=True)
            pr.start()
            child.close()
            return {"proc": pr, "conn": parent, "task": None, "since": 0.0}

        workers = [spawn() for _ in range(nproc)]
        queue = list(range(len(tasks)))[::-1]
        done = 0
        error = None
        try:
            while done < len(tasks) and error is None:
                for w in workers:
                    if w["task"] is None and queue:
                        w["task"] = queue.pop()
                        w["since"] = time.time()
                        w["conn"].send(tasks[w["task"]])
                busy = [w for w in workers if w["task"] is not None]
                ready = wait([w["conn"] for w in busy] + [w["proc"].sentinel for w in busy], timeout=30)
                for w in busy:
                    got = None
                    if w["conn"] in ready:
                        try:
                            got = w["conn"].recv()
                        except (EOFError, OSError):
                            got = None
                    if got is not None:
                        st, p, t = got
                        if st == "error":
                            error = f"worker failed on task {t!r}:\n{p}"
                            break
                        self.merge(p)
                        w["task"] = None
                        done += 1
                        continue
                    dead = not w["proc"].is_alive()
                    hung = (time.time() - w["since"]) > task_timeout
                    if dead or hung:
                        t = tasks[w["task"]]
                        if hung and not dead:
                            w["proc"].kill()
                            w["proc"].join(5)
                            why = f"did not finish within {task_timeout:.0f} s and was killed"
                        else:
                            w["proc"].join(1)
                            code = w["proc"].exitcode
                            why = (f"was killed by signal {signal.Signals(-code).name}" if code is not None and code < 0 and -code in [s_.value for s_ in signal.Signals]
                                   else f"exited with code {code}")
                        self.violation("process_death", {"task": repr(t)[:300]}, {"kind": "__task__", "task": repr(t)[:2000]},
                                       f"the worker process exploring task {repr(t)[:200]} {why}: the code under test took the interpreter down "
                                       f"(or never returned) on an input the explorer generated")
                        try:
                            w["conn"].close()
                        except OSError:
                            pass
                        workers[workers.index(w)] = spawn()
                        done += 1
        finally:
            for w in workers:
                try:
                    w["conn"].send(None)
                except (OSError, BrokenPipeError, ValueError):
                    pass
            for w in workers:
                w["proc"].join(2)
                if w["proc"].is_alive():
                    w["proc"].kill()
        if error is not None:
            raise RuntimeError(error)


# ---------------------------------------------------------------- findings
def load_findings():
    if not os.path.exists(FINDINGS_FILE):
        return {"findings": [], "fixed": []}
    with open(FINDINGS_FILE) as fh:
        return json.load(fh)


def match_finding(pid, viol, findings):
    for f in findings.get("findings", []):
        if f.get("property") != pid:
            continue
        if f.get("subcheck") not in (None, viol["sub"]):
            continue
        m = f.get("match", {})
        key = viol["key"]
        if all(k in key and key[k] == v for k, v in m.items()):
            return f
    return None


# ---------------------------------------------------------------- evidence
def write_evidence(ctx: Ctx, n_unmatched, n_known):
    os.makedirs(EVIDENCE_DIR, exist_ok=True)
    tot = {}
    per_sub = {}
    for sub, d in ctx.subs.items():
        per_sub[sub] = {k: v for k, v in d.items() if k != "_outcomes"}
        if "_outcomes" in d:
            oc = d["_outcomes"]
            per_sub[sub]["distinct_outcomes"] = len(oc)
            if len(oc) <= 12:
                per_sub[sub]["outcomes"] = oc
        for k, v in d.items():
            if k == "_outcomes" or k.startswith("max_") or k.startswith("bound_"):
                continue
            tot[k] = tot.get(k, 0) + v
    samples = []
    for sub, lst in ctx.samples.items():
        for c in lst:
            samples.append({"sub": sub, "case": c})
    coverage = {
        "evaluations": tot.get("evaluations", 0),
        "distinct_nontrivial": tot.get("nontrivial", 0),
        "rule": ctx.rule,
        "samples": samples[:40],
        "exhaustive": bool(ctx.exhaustive),
        "sub_checks": per_sub,
    }
    for k in ("states", "transitions", "traces_validated_against_impl", "programs",
              "disagreements_checked", "ambiguous", "excluded"):
        if k in tot:
            coverage[k] = tot[k]
    if ctx.level == "model_checking":
        coverage.setdefault("states", 0)
        coverage.setdefault("transitions", 0)
        coverage.setdefault("traces_validated_against_impl", 0)
    if ctx.caps:
        coverage["caps_hit"] = ctx.caps
    if ctx.undecided:
        coverage["undecided_sub_checks"] = ctx.undecided
    for k, v in ctx.notes.items():
        coverage[k] = v
    ev = {
        "property_id": ctx.pid,
        "tier": ctx.tier,
        "seed": int(ctx.seed),
        "level": ctx.level,
        "coverage": coverage,
        "assumptions": ctx.assumptions,
        "wall_s": round(time.time() - ctx.t0, 2),
        "violations": int(n_unmatched),
        "known_findings_matched": int(n_known),
        "repo": os.environ.get("VERIF_REPO_DIR", "/repo"),
    }
    path = os.path.join(EVIDENCE_DIR, f"{ctx.pid}.json")
    tmp = path + ".tmp"
    with open(tmp, "w") as fh:
        json.dump(ev, fh, indent=1, sort_keys=False)
        fh.write("\n")
    os.replace(tmp, path)
    return path


# ---------------------------------------------------------------- replay files
def write_replay(pid, idx, viol, tier, seed):
    d = os.path.join(REPLAY_DIR, pid)
    os.makedirs(d, exist_ok=True)
    path = os.path.join(d, f"{idx:03d}_{viol['sub']}.json")
    doc = {
        "property": pid,
        "sub": viol["sub"],
        "key": viol["key"],
        "case": viol["case"],
        "msg": viol["msg"],
        "tier": tier,
        "seed": seed,
        "how_to_replay": f"./check {pid} --replay {path}",
    }
    with open(path, "w") as fh:
        json.dump(doc, fh, indent=1)
        fh.write("\n")
    return path

#!/usr/bin/env python3
"""Regenerates MANIFEST.json from the table below (run after adding a check)."""
import json, os
ROOT = os.path.dirname(os.path.dirname(os.path.abspath(__file__)))

CHECKS = {
 "C01": dict(
  level="exploration", design="6/C01", engine="sse-product",
  technique="bounded exhaustive enumeration (n 4..9/12 x all 0/1 weight patterns x lambda grid x impulse basis): the real ws2d source executed on Fractions vs an independent dense rational solve; compiled ws2d vs the exact solution",
  text="Every weight pattern with >=2 positive weights up to the length bound, 7 lambdas over 1e-6..1e8 and a basis of right-hand sides; exact clause decided without tolerance on the real source, float clause against the exact rational solution. 87 listed (n,w,lambda) triples at lambda=1e8 exceed 1e-6 and are known findings.",
  note="All y covered through linearity (impulse basis) rather than enumeration of reals; n > 12 only by a deterministic family; float results are those of this CPU / LLVM target."),
 "C02": dict(
  level="exploration", design="6/C02", engine="sse-product",
  technique="bounded exhaustive differential exploration: every word over {ND,lo,mid,hi} (len 4..7/8) x 6 placeholder encodings x 8 smoother variants x parameter grid, compared bit-exactly across encodings; gap-fill via self-consistency with the fixed-lambda smoother and the C03 reference",
  text="All 21760 (87296) words, 40 variant/parameter points, six encodings of the missing cells, kernels and accessors; complete inside the bound.",
  note="Bit-exact equality across encodings is demanded (zero weight annihilates the placeholder exactly). Bound: length <= 7/8, three data letters."),
 "C03": dict(
  level="exploration", design="6/C03", engine="sse-product",
  technique="bounded exhaustive enumeration of words x lambda x p against a reference PLS / 10-pass asymmetric reweighting built from the definition (float64 + long-double refinement, cross-checked with exact rationals), rounding with tie guard band",
  text="Every word with >=2 valid cells x 6 lambdas x {none,4 p}; whits(s=), whits(sg=raster incl. -inf), p, six dimension orders; deterministic long series n=50..400.",
  note="Either neighbour accepted within 1e-5 of a rounding tie; curves leaving int16 excluded (none in scope)."),
 "C04": dict(
  level="exploration", design="6/C04", engine="sse-product",
  technique="bounded exhaustive enumeration of words x uniformly spaced sranges x p x lc; V-curve recomputed from its definition with condition-number error bounds (admissible arg-min sets), bit-exact self-consistency with the fixed-lambda smoother, grid choice differential",
  text="Structure, optimality (asymmetric: union of three readings), self-consistency, float32 sgrid and lc grid choice on all words of length 5..7/8 and 12/96 sranges.",
  note="Admissible set derived from reference quantities only; ambiguous (tied / degenerate) cases are counted in the evidence."),
 "C05": dict(
  level="exploration", design="6/C05", engine="sse-product",
  technique="bounded exhaustive enumeration of words (>=5 valid), flat-with-spikes {0,5,50}^8, constants and lines with all gap patterns x sranges x robust x p; GCV arg-min under two trace definitions with error bounds; robust mode checked on what the statement fixes",
  text="Non-robust: grid membership, arg-min admissibility, band = fixed smoother at lopt. Robust: grid membership, lines/constants reproduced, band straddles the data (sum w(y-z)=0 necessary condition), sanity bound.",
  note="Robust constants (4.685, 1.4826, passes) are not pinned; placeholder invariance of robust mode is decided in C02."),
 "C06": dict(
  level="exploration", design="6/C06", engine="sse-product",
  technique="bounded exhaustive metamorphic exploration: every line x gap pattern, every word x 5 offsets, every word reversed, through all 8 variants and their parameter grids; ties decided from reference margins",
  text="Lines reproduced exactly; offsets and reversal commute except at reference-decided rounding / criterion ties. 6 listed inputs of the robust variants are known findings.",
  note="Robust variants: a different lambda is tolerated only when the bands agree; their alphabet is seed-independent because of the listed findings."),
 "C17": dict(
  level="model_checking", design="6/C17", engine="sse-trie",
  technique="explicit-state exploration of the input trie (every word over {ND,4 letters} to length 7/8, every window) with a sliding-window reference automaton stepped on every edge, run against the compiled kernel and the accessor",
  text="Every word over a 5-symbol alphabet up to the length bound, every window size, three nodata renderings and four dtypes is executed on the real kernel and compared with a reference automaton; the causality edge relation is checked on every trie transition; mean_grp over every surjective labeling. Complete inside the bound; longer series only through a deterministic family.",
  note="Trusts NumPy integer arithmetic for the reference sums; bound: length <= 7 (quick) / 8 (thorough), 4 letters + nodata."),
}

PENDING_REASON = "check not built yet in this session (planned, see DESIGN.md section 6); not claimed until it exists"
ALL = [f"C{i:02d}" for i in range(1, 21)]

def main():
    checks = []
    for pid in ALL:
        c = CHECKS.get(pid)
        if not c:
            continue
        checks.append({
            "property_id": pid,
            "quick_cmd": f"./check {pid} quick",
            "thorough_cmd": f"./check {pid} thorough",
            "evidence_file": f"/verif/evidence/{pid}.json",
            "replay_cmd_template": f"./check {pid} --replay {{path}}",
            "engine": c["engine"],
            "level_claimed": {"category": c["level"], "text": c["text"], "design_ref": c["design"]},
            "level_note": c["note"],
            "technique": c["technique"],
        })
    man = {
        "version": 1,
        "setup_cmd": "/venv/bin/python -m compileall -q vf >/dev/null; ./check --selftest",
        "hooks": {
            "guard": "HDC_ALGO_VERIF",
            "enable": "no source hooks are needed: the explorers drive the compiled kernels, kernel.py_func / __wrapped__, and the lazy wrapper's closure directly; ./check exports HDC_ALGO_VERIF=1 (unused by hdc-algo)",
            "baseline_off_cmd": "cd /repo && /venv/bin/python -m pytest -ra -q -p no:cacheprovider --timeout=900 --continue-on-collection-errors",
            "source_commits": [],
            "add_only": True,
        },
        "engines": [
            {"name": "sse-trie", "path": "vf/sse.py", "serves_properties": ["C10", "C15", "C17", "C18", "C19"],
             "kind_free_text": "explicit-state exploration of input tries with streaming reference automata, run on the compiled kernels"},
            {"name": "sse-product", "path": "vf/sse.py", "serves_properties": ["C01", "C02", "C03", "C04", "C05", "C06", "C07", "C08", "C09", "C14", "C16", "C20"],
             "kind_free_text": "bounded exhaustive enumeration of input words x parameter grids against reference models (exact rational where possible)"},
            {"name": "sched", "path": "vf/sched/", "serves_properties": ["C12"],
             "kind_free_text": "stateless schedule exploration (preemption-bounded thread baton scheduler, controlled dask get, virtual prange)"},
            {"name": "calendar", "path": "vf/checks/c11.py", "serves_properties": ["C11"],
             "kind_free_text": "complete enumeration of the dekad state space"},
        ],
        "checks": checks,
        "notes": "All checks are bounded-exhaustive explorations run against /repo's working tree (editable install; VERIF_REPO overrides). See DESIGN.md.",
        "not_applicable": [{"property_id": pid, "reason": PENDING_REASON} for pid in ALL if pid not in CHECKS],
    }
    with open(os.path.join(ROOT, "MANIFEST.json"), "w") as fh:
        json.dump(man, fh, indent=1)
        fh.write("\n")
    print("MANIFEST.json:", len(checks), "checks,", len(man["not_applicable"]), "not claimed")

if __name__ == "__main__":
    main()

#!/usr/bin/env python3
"""Regenerates MANIFEST.json from the table below (run after adding a check)."""
import json, os
ROOT = os.path.dirname(os.path.dirname(os.path.abspath(__file__)))

CHECKS = {
 "C17": dict(
  level="model_checking", design="6/C17", engine="sse-trie",
  technique="explicit-state exploration of the input trie (every word over {ND,4 letters} to length 7/8, every window) with a sliding-window reference automaton stepped on every edge, run against the compiled kernel and the accessor",
  text="Every word over a 5-symbol alphabet up to the length bound, every window size, three nodata renderings and four dtypes is executed on the real kernel and compared with a reference automaton; the causality edge relation is checked on every trie transition; mean_grp over every surjective labeling. Complete inside the bound; longer series only through a deterministic family.",
  note="Trusts NumPy integer arithmetic for the reference sums; bound: length <= 7 (quick) / 8 (thorough), 4 letters + nodata."),
}

PENDING_REASON = "check not built yet in this session (planned, see DESIGN.md section 6); not claimed until it exists"
ALL = [f"C{i:02d}" for i in range(1, 21)]

def main():
    checks = []
    for pid in ALL:
        c = CHECKS.get(pid)
        if not c:
            continue
        checks.append({
            "property_id": pid,
            "quick_cmd": f"./check {pid} quick",
            "thorough_cmd": f"./check {pid} thorough",
            "evidence_file": f"/verif/evidence/{pid}.json",
            "replay_cmd_template": f"./check {pid} --replay {{path}}",
            "engine": c["engine"],
            "level_claimed": {"category": c["level"], "text": c["text"], "design_ref": c["design"]},
            "level_note": c["note"],
            "technique": c["technique"],
        })
    man = {
        "version": 1,
        "setup_cmd": "/venv/bin/python -m compileall -q vf >/dev/null; ./check --selftest",
        "hooks": {
            "guard": "HDC_ALGO_VERIF",
            "enable": "no source hooks are needed: the explorers drive the compiled kernels, kernel.py_func / __wrapped__, and the lazy wrapper's closure directly; ./check exports HDC_ALGO_VERIF=1 (unused by hdc-algo)",
            "baseline_off_cmd": "cd /repo && /venv/bin/python -m pytest -ra -q -p no:cacheprovider --timeout=900 --continue-on-collection-errors",
            "source_commits": [],
            "add_only": True,
        },
        "engines": [
            {"name": "sse-trie", "path": "vf/sse.py", "serves_properties": ["C10", "C15", "C17", "C18", "C19"],
             "kind_free_text": "explicit-state exploration of input tries with streaming reference automata, run on the compiled kernels"},
            {"name": "sse-product", "path": "vf/sse.py", "serves_properties": ["C01", "C02", "C03", "C04", "C05", "C06", "C07", "C08", "C09", "C14", "C16", "C20"],
             "kind_free_text": "bounded exhaustive enumeration of input words x parameter grids against reference models (exact rational where possible)"},
            {"name": "sched", "path": "vf/sched/", "serves_properties": ["C12"],
             "kind_free_text": "stateless schedule exploration (preemption-bounded thread baton scheduler, controlled dask get, virtual prange)"},
            {"name": "calendar", "path": "vf/checks/c11.py", "serves_properties": ["C11"],
             "kind_free_text": "complete enumeration of the dekad state space"},
        ],
        "checks": checks,
        "notes": "All checks are bounded-exhaustive explorations run against /repo's working tree (editable install; VERIF_REPO overrides). See DESIGN.md.",
        "not_applicable": [{"property_id": pid, "reason": PENDING_REASON} for pid in ALL if pid not in CHECKS],
    }
    with open(os.path.join(ROOT, "MANIFEST.json"), "w") as fh:
        json.dump(man, fh, indent=1)
        fh.write("\n")
    print("MANIFEST.json:", len(checks), "checks,", len(man["not_applicable"]), "not claimed")

if __name__ == "__main__":
    main()

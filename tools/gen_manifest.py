#!/usr/bin/env python3
"""Regenerates MANIFEST.json from the table below (run after adding a check)."""
import json, os
ROOT = os.path.dirname(os.path.dirname(os.path.abspath(__file__)))

CHECKS = {
 "C12": dict(
  level="model_checking", design="6/C12", engine="sched",
  technique="stateless schedule exploration: preemption-bounded baton scheduler over real threads racing on the real lazycompile wrapper (stub + real Numba compilation), controlled dask scheduler enumerating task orders with bounded deviations, virtual prange (AST transform, one cooperative thread per row); exhaustive configuration product (chunkings x layouts x schedulers x thread counts)",
  text="All interleavings at line granularity / preemption-bounded at bytecode granularity for 2-3 threads; dask task orders with <=1 (2) deviations for 17 accessor operations; all 32 (y,x) chunkings x 3 (6) layouts x 2 (7) schedulers; all 31 time chunkings (raise or equal eager); pixel permutations; thread counts 1..16; prange body interleavings with <=2 (3) preemptions. Oracle: eager / sequential result, bit-exact. The thread count a kernel asks for (numba.get_num_threads) is enumerated 1..6 on 1..7 rows in the virtualised source. Joint graphs: 15 operation pairs (two auxiliary inputs on one lazy cube; one call on two cubes) evaluated with dask.compute(a, b) and as a - b, 3 chunkings x 2 schedulers, each against its in-memory result. float32 cubes with scalar arguments float32 cannot represent; 26 joint pairs varying one input at a time; other ranks and extents (1-d, 2-d, 4-d, single pixel / row / column); three calls on one object with the input checked untouched. A dask-backed object loaded in place; in-memory data edited in place between calls; joint graphs over two time labellings of the same stored data. Non-index coordinates (scalar, 2-d, per row) across dimension orders and backends. Sequences across objects in one process (same bytes as another dtype, other nodata / time labels / data) against references from children forked before the sequence.",
  note="Native-code interleavings (GIL-free gufunc loops, Numba threading layer) are not controllable from Python; configurations are enumerated there. The free-running lazy pass is sampling and reported as a supplement."),
 "C13": dict(
  level="translation_validation", design="6/C13", engine="sse-product",
  technique="bounded exhaustive differential execution of every discovered @njit/@guvectorize program (35) compiled vs its own source under CPython (numba types -> NumPy dtypes, callees compiled) on exhaustive word sets per dtype; SciPy special functions in nopython code vs scipy.special on log grids",
  text="35 programs, ~40k (400k) input cases, 120k special-function evaluations; tolerances as stated in the property; selection ties decided by the C04/C05 reference. Every integer-typed program also over the whole range of its input dtypes (int16 / uint8 / uint16 / int32 / int64 extremes). Gaps also written as NaN / +inf / -inf; interpreter-only exceptions outside a white-list of benign run-time differences are disagreements. Nearly constant series of 8..200 values (reduction order). Exceptions raised by the program's own source under the interpreter are compared as behaviour; V-curve grids with the optimum in the first interval.",
  note="An overflow under the interpreter is NumPy's warn-and-wrap value and is compared; inputs on which the interpreter raises a Python-level error compiled code cannot raise (math domain errors) are out-of-domain and counted; legacy ops/whit.py is excluded (not imported by the package)."),
 "C14": dict(
  level="exploration", design="6/C14", engine="sse-product",
  technique="bounded exhaustive enumeration of boundary-sized in-contract inputs per kernel, executed in child processes compiled with NUMBA_BOUNDSCHECK=1 (IndexError on any out-of-bounds index); two sentinel-filled caller-owned output buffers per gufunc call expose unwritten elements",
  text="Every word over {ND,10,90} of length 2..7/8 for all smoothers with srange lengths 2..4, every template/mark/label pattern for tinterpolate, every zone assignment for 1x1..3x3 rasters, every window, labeling and calibration pair for the stats kernels.",
  note="Negative wrap-around indices are legal and not reported; bounds checking self-test runs in every child."),
 "C07": dict(
  level="exploration", design="6/C07", engine="sse-product",
  technique="bounded exhaustive enumeration of words over {ND,0,1,2,7,30} x all calibration windows x 4 kernel entry points + accessor, and a deterministic quantile-grid family, against an independent SciPy evaluation of the SPI definition with an interval for the fitted shape",
  text="All words of length 3..6/7 with every window of >=2 steps, int16/float32/float64 inputs; shapes 0.05..500, scales 0.1..1e4, n<=400 with zeros and ties. Interval oracle: every integer between the rounded ends for alpha*(1+-1e-9) (float32: single-precision log bound). Accessor windows written with dates on the steps and strictly between steps; attribute histories of nodata on one object (depth 3). nodata given as argument (-9999 / 0 / 7) against every state of the attribute (absent / equal / conflicting), ungrouped and grouped. Two interleaved groups with all pairs of group-local windows; argument spellings (date types, nodata types).",
  note="Trusts scipy.special (digamma, gammainc, ndtri) and scipy.optimize.brentq as the reference; |SPI|>7000 left to C08."),
 "C08": dict(
  level="exploration", design="6/C08", engine="sse-product",
  technique="bounded exhaustive enumeration: words with negative / nodata letters (ordering inside each pixel), extremes ladders base*10^k for k=-300..6 over shapes 0.5..1e4, and every placement of every kind of unfittable pixel in a 2x2 cube x dtypes x grouped",
  text="Non-decreasing indices, equal -> equal, nodata/negative -> nodata (and replacing negatives by nodata changes nothing), saturation instead of wrap, no exception, neighbours unaffected; dense ladders of 321 quantile levels (-6..6 sigma) with zero shares 0..0.8. Zero-share rule on pixels with invalid cells: z <= 40 zeros x k <= 20 nodata / negative cells x 3 arrangements x 4 entry points. Marker independence: the same words with their missing cells written as -9999 / 0 / 7 / 255.",
  note="The saturation value itself is not pinned by the statement; only order preservation is demanded beyond the int16 range."),
 "C09": dict(
  level="exploration", design="6/C09", engine="sse-product",
  technique="bounded exhaustive enumeration of time axes (subsets of a 9-position lattice) x all begin/end dates on/between/before/after steps, and of set partitions x label spellings for groups; index reference + differential grouped vs per-group ungrouped path",
  text="Window membership, attrs, ValueError for every invalid window and only those, grouped == per-group ungrouped, spelling invariance, single group == ungrouped, to_linspace / get_calibration_indices directly, 36 dekad groups; axes stamped at 10:30 with begin/end at three times of day; far-away sentinel dates (years 1..9999); call sequences in one process over 21 axes with equal extent. Influence oracle at the kernels: an observation outside the calibration window never influences the indices of other positions (every pixel x window x position, ungrouped and two groupings). Axes of 32767..40000 steps (one group == ungrouped, two groups == per-group, windows beyond position 32767). Every third window also on the dask-backed cube; argument spellings (date types, label containers). Every window also with each pixel alone and the pixels in reverse order. Numeric labels whose numeric order differs from the order of their spellings.",
  note="Axes of 5 steps (quick) / 3..6 steps (thorough) for windows; 6..7 (9) steps for groups."),
 "C10": dict(
  level="model_checking", design="6/C10", engine="sse-trie",
  technique="explicit-state exploration of the trie of all weak orderings (rank patterns) of 2..7/8 points, exact reference (integer S, rational variance and Sen slope) on every state, S-increment relation on every edge, symmetry relations; 4 kernel entry points + accessor",
  text="All 52608 (598443) rank patterns; tau, p, slope, flag compared with exact values (float32 1 ulp); x->2x+3, x^3, -x, reversal; all-nodata pixels (also nodata=0); all words over three values n=8..9 (11); patterns spread over the whole int16 range; decision-boundary family: for every n<=80 (200) and 8 tie structures the smallest significant and largest non-significant score. Every pattern n<=7 again as float32 base + step * rank with distinct values 4e-6..6e-5 relative apart (three base/step pairs, both float32 entry points). Attribute histories of nodata on one long-lived object (depth 3) against a fresh object. Accessor on strided views (transposed time-first cube, Fortran order, every second step).",
  note="Threshold guard |p-0.05|>1e-9 never triggers in scope (min 1.3e-3)."),
 "C11": dict(
  level="model_checking", design="6/C11", engine="calendar",
  technique="complete enumeration of the finite state space: all 3,652,059 days and 359,964 dekads with successor transitions, every clause of the statement evaluated in every state; accessor vs scalar class element-wise",
  text="Not bounded: the whole calendar 0001..9999 is explored in every run (quick and thorough). Accessor on every axis that is a subset of <= 4 (5) instants of a 13-instant lattice over four dekads, three orders. Microsecond axes: the first and last two microseconds of every dekad of 19 years over 0001..9998. Axes holding the same integers in different datetime64 units, every ordered pair of units.",
  note="Reference = datetime / calendar from the standard library."),
 "C15": dict(
  level="model_checking", design="6/C15", engine="sse-trie",
  technique="explicit-state exploration of the input trie over {ND,a,b,c} (length 3..9/10) with a streaming exact-integer reference (ten running sums), int/nodata vs float/NaN, (y,x,t) vs (t,y,x), affine invariance, accessor numpy/dask; 900-step outage family",
  text="All 349k (1.4M) words; value, range [-1,1], encodings, layouts, affine maps; large-offset alphabet (30000+{0,1,5}); nearly flat plateaus n=30..900; nodata=0 attribute. Words over decimal fractions (float64 / float32) and records flat after their first sample up to 900 steps; attribute histories of nodata on one object, both layouts. Plateau records that start with missing cells. First valid sample far from the plateau.",
  note="Tolerance 2e-6 absolute (float32 outputs). Float data with decimal fractions: 2e-5 (rounding residue of the single-pass sums), finite and within [-1,1] required."),
 "C16": dict(
  level="exploration", design="6/C16", engine="sse-product",
  technique="bounded exhaustive enumeration of zone x value assignments for rasters of 1..5/6 pixels x num_zones x dtype, boundary zone sizes 2^24-1, 2^24, 2^24+2, 25M, 1000 zones, every number of zones 1..300 (1..1100) and 2^e-1, 2^e, 2^e+1 up to 1025 (65537) with every zone populated x zone-raster dtype / marker x kernel / numpy / dask, all 720 pixel permutations, accessor numpy/dask",
  text="Exact mean (2 ulp of output dtype) and exact count, NaN/0 for empty zones, zone-nodata pixels excluded, rearrangement invariance; zone rasters of every integer dtype with fill values outside int16. Attribute histories of nodata on the value cube and on the zone raster (depth 3). Value rasters of eight dtypes over their whole range; five zone rasters on one lazy cube evaluated in one graph (joint_zones). nodata markers that float32 cannot represent, at the kernel and through the accessor; argument spellings. In-place edits of the cube (NaN / nodata / value) between calls, every order of up to three.",
  note="Large zones use integer-valued pixels (exact float64 sums)."),
 "C18": dict(
  level="model_checking", design="6/C18", engine="sse-trie",
  technique="explicit-state exploration of the binary input trie (length 1..16/18) with a run-length automaton and edge relations; long-run family beyond 255 / 65535; non-binary alphabet; croo under all permutations of the stored time order",
  text="All 131070 binary words, runs up to 1000 (70000), all 720 stored orders for words up to length 6, time axes before / across 1970, one object relabelled in place through all 120 orders. croo on cubes of 257..1000 steps holding every combination of current run length x isolated 1 at 64..768 steps back, three storage orders, numpy and dask. lroo through the accessor on 3 900 small cubes (every word alone, pairs, triples) in four layouts incl. views and dask. croo_long also runs every pixel as a cube of its own and the cube without its long runs. Four time labellings of one stored dask array evaluated in one graph.",
  note="croo is only claimed for binary series (the property's quantifier)."),
 "C19": dict(
  level="model_checking", design="6/C19", engine="sse-trie",
  technique="exhaustive exploration of the generator: axis length 1..8/12 x n x begin x end x lookup method x reducer x dim kind, every next() compared with the reference window list; off-axis labels must raise ValueError",
  text="Every configuration inside the bound, time and numeric dims (incl. fractional labels on integer axes), NaN data; int16 / int32 / uint8 / bool / float32 cubes. Every placement of one or two NaN positions x every on-axis begin / end x n x sum / mean on both dimension kinds. Every history of <= 3 steps over five calls along two dimensions and an in-place relabel on one object; argument spellings. float32 / float16 / float64 cubes with NaN cells.",
  note="Lookup methods follow pandas get_indexer semantics; nearest ties accept either neighbour."),
 "C20": dict(
  level="exploration", design="6/C20", engine="sse-product",
  technique="bounded exhaustive enumeration of templates (n obs 2..4/5, gaps 0..3, head/tail) x all contiguous labelings x value words; reference curve at lambda=1e-5 (refined float, cross-checked with rationals), period means, tie band; inputs unmodified; accessor; long regular families",
  text="158 templates x 2^(L-1) labelings (increasing, descending and zig-zag label ids) x value words; lines in day number give exact period means. Template stored as bool / uint8 / int8 / int16 / int32 / int64 / float32 / float64 with sparse irregular marks. Five requests (labelings / templates) on one lazy cube evaluated in one graph; argument spellings. Daily axes with unmarked tails of 0..20 days and heads of 0 / 3 / 9 days.",
  note="Either neighbour accepted within 1e-6 of a rounding tie."),
 "C01": dict(
  level="exploration", design="6/C01", engine="sse-product",
  technique="bounded exhaustive enumeration (n 4..9/12 x all 0/1 weight patterns x lambda grid x impulse basis): the real ws2d source executed on Fractions vs an independent dense rational solve; compiled ws2d vs the exact solution",
  text="Every weight pattern with >=2 positive weights up to the length bound, 7 lambdas over 1e-6..1e8 and a basis of right-hand sides; exact clause decided without tolerance on the real source, float clause against the exact rational solution; long series (n 50..220/400) with zero-weight runs of up to 200 cells; lambda given as int / NumPy integer / float32. 89 listed cases at lambda=1e8 exceed 1e-6 and are known findings. Exact clause also over the weight alphabet {0, 1e-13, 1, 1e5} (all patterns of length 4..6).",
  note="All y covered through linearity (impulse basis) rather than enumeration of reals; n > 12 only by a deterministic family; float results are those of this CPU / LLVM target."),
 "C02": dict(
  level="exploration", design="6/C02", engine="sse-product",
  technique="bounded exhaustive differential exploration: every word over {ND,lo,mid,hi} (len 4..7/8) x 6 placeholder encodings x 8 smoother variants x parameter grid, compared bit-exactly across encodings; gap-fill via self-consistency with the fixed-lambda smoother and the C03 reference",
  text="Missing cells also declared by their own value (nodata argument NaN / +inf / -inf) for the fixed-lambda and GCV kernels. All 21760 (87296) words, 40 variant/parameter points, seven encodings of the missing cells (nodata below / inside / above the data, 0, NaN, +inf, -inf), kernels and accessors (also nodata=0 against a conflicting attribute); the fourth difference of every band must vanish at missing cells; complete inside the bound. Gaps of one series marked in two ways at once (marker and NaN / +inf alternately).",
  note="Bit-exact equality across encodings is demanded (zero weight annihilates the placeholder exactly). Bound: length <= 7/8, three data letters."),
 "C03": dict(
  level="exploration", design="6/C03", engine="sse-product",
  technique="bounded exhaustive enumeration of words x lambda x p against a reference PLS / 10-pass asymmetric reweighting built from the definition (float64 + long-double refinement, cross-checked with exact rationals), rounding with tie guard band",
  text="Every word with >=2 valid cells x 6 lambdas x {none,4 p}; whits(s=), whits(sg=raster incl. -inf, also handed over transposed), p incl. 0.5, six dimension orders; deterministic long series n=50..400 incl. series that have not converged after 10 reweighting passes. Argument spellings (s, nodata, sg given with other types / layouts). float64 cubes stored time-first / time in the middle in memory. Word alphabet with 0 as an observation.",
  note="Either neighbour accepted within 1e-5 of a rounding tie; curves leaving int16 excluded (none in scope)."),
 "C04": dict(
  level="exploration", design="6/C04", engine="sse-product",
  technique="bounded exhaustive enumeration of words x uniformly spaced sranges x p x lc; V-curve recomputed from its definition with condition-number error bounds (admissible arg-min sets), bit-exact self-consistency with the fixed-lambda smoother, grid choice differential",
  text="Structure, optimality (asymmetric: union of three readings), bit-exact self-consistency, float32 sgrid and lc grid choice on all words of length 5..7/8 and 12/96 sranges, p in {none,.1,.5,.9}; long series n=50..400 (optimality, and self-consistency with extreme p where the reweighting does not converge); lc rasters matched by name. Argument spellings (srange dtypes and views, nodata types).",
  note="Admissible set derived from reference quantities only; ambiguous (tied / degenerate) cases are counted in the evidence."),
 "C05": dict(
  level="exploration", design="6/C05", engine="sse-product",
  technique="bounded exhaustive enumeration of words (>=5 valid), flat-with-spikes {0,5,50}^8, constants and lines with all gap patterns x sranges x robust x p; GCV arg-min under two trace definitions with error bounds; robust mode checked on what the statement fixes",
  text="Robust mode: every word with a gap under twelve encodings of the missing cells (finite below / inside / above, zero, NaN, +-inf, mixed, self-declared NaN / inf) gives the same band and lambda. Non-robust: grid membership, arg-min admissibility, band = fixed smoother at lopt. Robust: grid membership, lines/constants reproduced, band straddles the data (sum w(y-z)=0 necessary condition), sanity bound. All variants: optimality (KKT) conditions of a weighted Whittaker curve at the reported lambda; long series n=50..200; accessor defaults incl. p=0.5. Argument spellings (srange dtypes and views, robust as np.bool_, defaults spelled out). Level shifts of every word with gaps through both robust kernels.",
  note="Robust constants (4.685, 1.4826, passes) are not pinned; placeholder invariance of robust mode is decided in C02."),
 "C06": dict(
  level="exploration", design="6/C06", engine="sse-product",
  technique="bounded exhaustive metamorphic exploration: every line x gap pattern, every word x 5 offsets, every word reversed, through all 8 variants and their parameter grids; ties decided from reference margins",
  text="Lines reproduced exactly; offsets and reversal (copy and strided view) commute except at reference-decided rounding / criterion ties. 6 listed inputs of the robust variants are known findings. Cold start of the lambda sweep: all words of length 8, grid 0..3, p 0.9 / 0.95, offsets -5000 / 3000 / 5000.",
  note="Robust variants: a different lambda is tolerated only when the bands agree; their alphabet is seed-independent because of the listed findings."),
 "C17": dict(
  level="model_checking", design="6/C17", engine="sse-trie",
  technique="explicit-state exploration of the input trie (every word over {ND,4 letters} to length 7/8, every window) with a sliding-window reference automaton stepped on every edge, run against the compiled kernel and the accessor",
  text="Every word over a 5-symbol alphabet up to the length bound, every window size, three nodata renderings and four dtypes is executed on the real kernel and compared with a reference automaton; the causality edge relation is checked on every trie transition; mean_grp over every surjective labeling. Complete inside the bound; longer series only through a deterministic family. 1000-step records at levels 26000 / 100000 (record total beyond 2^24, every window sum exact); attribute histories of nodata on one object for rolling.sum and mean_grp. Records of 32767..70000 steps for mean_grp and rolling_sum. Markers reachable by partial sums of the alphabet; argument spellings. Valid cells right next to the marker.",
  note="Trusts NumPy integer arithmetic for the reference sums; bound: length <= 7 (quick) / 8 (thorough), 4 letters + nodata."),
}

PENDING_REASON = "check not built yet in this session (planned, see DESIGN.md section 6); not claimed until it exists"
ALL = [f"C{i:02d}" for i in range(1, 21)]

def main():
    checks = []
    for pid in ALL:
        c = CHECKS.get(pid)
        if not c:
            continue
        checks.append({
            "property_id": pid,
            "quick_cmd": f"./check {pid} quick",
            "thorough_cmd": f"./check {pid} thorough",
            "evidence_file": f"/verif/evidence/{pid}.json",
            "replay_cmd_template": f"./check {pid} --replay {{path}}",
            "engine": c["engine"],
            "level_claimed": {"category": c["level"], "text": c["text"], "design_ref": c["design"]},
            "level_note": c["note"],
            "technique": c["technique"],
        })
    man = {
        "version": 1,
        "setup_cmd": "/venv/bin/python -m compileall -q vf >/dev/null; ./check --selftest",
        "hooks": {
            "guard": "HDC_ALGO_VERIF",
            "enable": "no source hooks are needed: the explorers drive the compiled kernels, kernel.py_func / __wrapped__, and the lazy wrapper's closure directly; ./check exports HDC_ALGO_VERIF=1 (unused by hdc-algo)",
            "baseline_off_cmd": "cd /repo && /venv/bin/python -m pytest -ra -q -p no:cacheprovider --timeout=900 --continue-on-collection-errors",
            "source_commits": [],
            "add_only": True,
        },
        "engines": [
            {"name": "sse-trie", "path": "vf/sse.py", "serves_properties": ["C10", "C15", "C17", "C18", "C19"],
             "kind_free_text": "explicit-state exploration of input tries with streaming reference automata, run on the compiled kernels"},
            {"name": "sse-product", "path": "vf/sse.py", "serves_properties": ["C01", "C02", "C03", "C04", "C05", "C06", "C07", "C08", "C09", "C14", "C16", "C20"],
             "kind_free_text": "bounded exhaustive enumeration of input words x parameter grids against reference models (exact rational where possible)"},
            {"name": "sched", "path": "vf/sched/", "serves_properties": ["C12"],
             "kind_free_text": "stateless schedule exploration (preemption-bounded thread baton scheduler, controlled dask get, virtual prange)"},
            {"name": "calendar", "path": "vf/checks/c11.py", "serves_properties": ["C11"],
             "kind_free_text": "complete enumeration of the dekad state space"},
        ],
        "checks": checks,
        "notes": "All checks are bounded-exhaustive explorations run against /repo's working tree (editable install; VERIF_REPO overrides). See DESIGN.md.",
        "not_applicable": [{"property_id": pid, "reason": PENDING_REASON} for pid in ALL if pid not in CHECKS],
    }
    with open(os.path.join(ROOT, "MANIFEST.json"), "w") as fh:
        json.dump(man, fh, indent=1)
        fh.write("\n")
    print("MANIFEST.json:", len(checks), "checks,", len(man["not_applicable"]), "not claimed")

if __name__ == "__main__":
    main()

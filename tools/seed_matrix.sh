#!/bin/sh
# Regression over the seeded changes: every change is applied in a scratch worktree and the quick check of its
# property must report it (exit 1).  Prints one line per change; exit 1 if any change goes unreported.
cd "$(dirname "$0")/.."
bad=0
tmp=$(mktemp /var/tmp/seedmx.XXXXXX)
for d in seeded/*/; do
  id=$(basename $d)
  pid=$(python3 -c "import json;m=json.load(open('$d/meta.json'));print((m['detected_by'] or [m['property']])[0])")
  python3 tools/seed_eval.py $d $pid --no-suite > $tmp 2>/dev/null
  rc=$(python3 -c "import json;o=json.load(open('$tmp'));print(o['checks']['$pid']['rc'], o['demo']['with_change_rc'], o['demo']['without_change_rc'])")
  echo "$id check=$pid rc/demo_with/demo_without: $rc"
  case "$rc" in "1 1 0") ;; *) bad=1;; esac
done
rm -f $tmp
exit $bad

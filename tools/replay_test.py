#!/usr/bin/env python3
"""For one seeded change per property: run the quick check against the changed tree, take the first replay file it
writes, and verify that `./check <ID> --replay <file>` (a) still reports the violation on the changed tree and
(b) passes on the unchanged tree.  Prints one line per property.  usage: replay_test.py [C01 C02 ...]"""
import glob
import json
import os
import re
import shutil
import subprocess
import sys

VERIF = os.path.dirname(os.path.dirname(os.path.abspath(__file__)))
REPO = "/repo"


def sh(cmd, env=None, cwd=None, timeout=7200):
    e = dict(os.environ)
    if env:
        e.update(env)
    r = subprocess.run(cmd, cwd=cwd, env=e, capture_output=True, text=True, timeout=timeout)
    return r.returncode, r.stdout, r.stderr


def main():
    pids = sys.argv[1:] or [f"C{i:02d}" for i in range(1, 21)]
    ok_all = True
    for pid in pids:
        cands = sorted(glob.glob(os.path.join(VERIF, "seeded", pid + "?", "meta.json")))
        seed = None
        for c in cands:
            m = json.load(open(c))
            if pid in m.get("detected_by", []):
                seed = os.path.dirname(c)
                break
        if seed is None:
            print(pid, "no seeded change detected by its own check")
            continue
        wt = f"/tmp/rt_{pid}_{os.getpid()}"
        sh(["git", "-C", REPO, "worktree", "add", "-q", "--detach", wt, "HEAD"])
        try:
            rc, so, se = sh(["git", "-C", wt, "apply", os.path.join(seed, "patch.diff")])
            if rc:
                print(pid, "patch does not apply:", se[-200:])
                ok_all = False
                continue
            env = {"VERIF_REPO": wt, "VERIF_SCRATCH_EVIDENCE": "pid"}
            rc, so, se = sh([os.path.join(VERIF, "check"), pid, "quick"], env=env, cwd=VERIF)
            m = re.search(r"VIOLATION property=\S+ replay=(\S+)", so)
            if rc != 1 or not m:
                print(pid, os.path.basename(seed), "check did not report a violation (rc", rc, ")")
                ok_all = False
                continue
            rp = m.group(1)
            keep = rp + ".keep"
            shutil.copy(rp, keep)
            rc1, so1, _ = sh([os.path.join(VERIF, "check"), pid, "--replay", keep], env=env, cwd=VERIF)
            rc0, so0, se0 = sh([os.path.join(VERIF, "check"), pid, "--replay", keep], env={"VERIF_SCRATCH_EVIDENCE": "pid"}, cwd=VERIF)
            good = rc1 == 1 and rc0 == 0
            ok_all &= good
            print(pid, os.path.basename(seed), "replay on changed tree rc", rc1, "| on unchanged tree rc", rc0, "OK" if good else "PROBLEM",
                  "" if good else (so1[-300:] + so0[-300:] + se0[-300:]))
            shutil.rmtree(os.path.dirname(os.path.dirname(rp)), ignore_errors=True)
        finally:
            sh(["git", "-C", REPO, "worktree", "remove", "--force", wt])
            shutil.rmtree(wt, ignore_errors=True)
    return 0 if ok_all else 1


if __name__ == "__main__":
    sys.exit(main())

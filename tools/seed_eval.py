#!/usr/bin/env python3
"""Confirm a seeded breaking change and run checks against it.

usage: seed_eval.py <dir with patch.diff + demo.py> <property id> [--checks C01,C02,...] [--no-suite] [--tier quick]

Steps (all in a scratch worktree outside /repo and /verif, removed afterwards):
  1. apply patch.diff on a fresh worktree of /repo's HEAD
  2. the repository's own test-suite must still pass with the change
  3. demo.py must fail (exit != 0) with the change and pass (exit 0) on the unchanged tree
  4. run the requested checks with VERIF_REPO=<worktree>; report exit codes and first VIOLATION lines
Prints one JSON document.
"""
import json
import os
import re
import shutil
import subprocess
import sys
import time

REPO = "/repo"
VERIF = os.path.dirname(os.path.dirname(os.path.abspath(__file__)))
PY = "/venv/bin/python"


def sh(cmd, cwd=None, env=None, timeout=3600):
    e = dict(os.environ)
    if env:
        e.update(env)
    r = subprocess.run(cmd, cwd=cwd, env=e, capture_output=True, text=True, timeout=timeout, shell=isinstance(cmd, str))
    return r.returncode, r.stdout, r.stderr


def main():
    d = os.path.abspath(sys.argv[1])
    pid = sys.argv[2]
    checks = [pid]
    suite = True
    tier = "quick"
    for i, a in enumerate(sys.argv):
        if a == "--checks":
            checks = sys.argv[i + 1].split(",")
        if a == "--no-suite":
            suite = False
        if a == "--tier":
            tier = sys.argv[i + 1]
    name = re.sub(r"[^A-Za-z0-9]", "_", d)[-40:]
    wt = f"/tmp/ev_{name}_{os.getpid()}"
    out = {"dir": d, "property": pid, "worktree": wt}
    rc, so, se = sh(["git", "-C", REPO, "worktree", "add", "-q", "--detach", wt, "HEAD"])
    if rc:
        out["error"] = "worktree: " + se
        print(json.dumps(out, indent=1))
        return 2
    try:
        rc, so, se = sh(["git", "-C", wt, "apply", os.path.join(d, "patch.diff")])
        out["patch_applies"] = rc == 0
        if rc:
            out["error"] = "apply: " + se[-500:]
            print(json.dumps(out, indent=1))
            return 2
        rc, so, se = sh(["git", "-C", wt, "diff", "--stat"])
        out["diffstat"] = so.strip().splitlines()[-1] if so.strip() else ""
        env = {"PYTHONPATH": wt}
        if suite:
            t = time.time()
            rc, so, se = sh([PY, "-m", "pytest", "-q", "-p", "no:cacheprovider", "--timeout=900", "tests"], cwd=wt, env=env)
            tail = (so.strip().splitlines() or [""])[-1]
            out["suite"] = {"rc": rc, "tail": tail, "wall_s": round(time.time() - t)}
        demo = os.path.join(d, "demo.py")
        if os.path.exists(demo):
            rc1, so1, se1 = sh([PY, demo], cwd=wt, env=env, timeout=1800)
            rc0, so0, se0 = sh([PY, demo], cwd=REPO, env={"PYTHONPATH": REPO}, timeout=1800)
            out["demo"] = {"with_change_rc": rc1, "without_change_rc": rc0, "with_change_out": (so1 + se1)[-400:], "without_change_out": (so0 + se0)[-200:]}
        out["checks"] = {}
        for c in checks:
            t = time.time()
            rc, so, se = sh([os.path.join(VERIF, "check"), c, tier], cwd=VERIF, env={"VERIF_REPO": wt, "VERIF_SCRATCH_EVIDENCE": "1"}, timeout=7200)
            lines = so.strip().splitlines()
            viol = [l for l in lines if l.startswith("VIOLATION")]
            detail = [l.strip()[:300] for l in lines if l.startswith("  [")][:3]
            out["checks"][c] = {"rc": rc, "violations_printed": len(viol), "first": detail, "tail": (lines or [""])[-1][:200], "wall_s": round(time.time() - t),
                                "stderr_tail": se[-300:] if rc not in (0, 1) else ""}
    finally:
        sh(["git", "-C", REPO, "worktree", "remove", "--force", wt])
        shutil.rmtree(wt, ignore_errors=True)
    print(json.dumps(out, indent=1))
    return 0


if __name__ == "__main__":
    sys.exit(main())

#!/usr/bin/env python3
"""Keep a confirmed seeded change: copy patch.diff / demo.py / notes.md to /verif/seeded/<id>/ and write meta.json.

usage: seed_keep.py <id> <delivery dir> <seed_eval json> <change> <needs_to_manifest> <origin> [<history>]

Refuses unless the evaluation shows: suite passes with the change, demo fails with it and passes without it.
"""
import json
import os
import shutil
import sys

VERIF = os.path.dirname(os.path.dirname(os.path.abspath(__file__)))


def main():
    sid, src, evf, change, needs, origin = sys.argv[1:7]
    history = sys.argv[7] if len(sys.argv) > 7 else "caught as delivered"
    ev = json.load(open(evf))
    prop = ev["property"]
    ok = ev.get("suite", {}).get("rc") == 0 and ev["demo"]["with_change_rc"] != 0 and ev["demo"]["without_change_rc"] == 0
    if not ok:
        print("not confirmed:", json.dumps({k: ev.get(k) for k in ("suite", "demo")})[:600])
        return 1
    dst = os.path.join(VERIF, "seeded", sid)
    os.makedirs(dst, exist_ok=True)
    for f in ("patch.diff", "demo.py", "notes.md"):
        if os.path.exists(os.path.join(src, f)):
            shutil.copy(os.path.join(src, f), os.path.join(dst, f))
    detected = [c for c, r in ev["checks"].items() if r["rc"] == 1 and r["violations_printed"]]
    c0 = prop if prop in ev["checks"] else next(iter(ev["checks"]))
    r0 = ev["checks"][detected[0] if detected else c0]
    meta = {
        "id": sid, "property": prop, "change": change, "needs_to_manifest": needs, "origin": origin,
        "confirmed": {"suite_with_change": ev["suite"]["tail"], "demo_with_change_rc": ev["demo"]["with_change_rc"],
                      "demo_without_change_rc": ev["demo"]["without_change_rc"]},
        "commands": [
            "git -C /repo worktree add --detach <wt> HEAD && git -C <wt> apply patch.diff",
            "cd <wt> && PYTHONPATH=<wt> /venv/bin/python -m pytest -q -p no:cacheprovider --timeout=900 tests",
            "PYTHONPATH=<wt> /venv/bin/python demo.py   (and with PYTHONPATH=/repo)",
            f"VERIF_REPO=<wt> ./check {detected[0] if detected else c0} quick",
            "(tools/seed_eval.py automates these steps and removes the worktree)"],
        "check_result": {"check": detected[0] if detected else c0, "tier": "quick", "exit": r0["rc"],
                         "first_violation": (r0["first"] or [r0["tail"]])[0]},
        "detected_by": detected, "history": history,
    }
    json.dump(meta, open(os.path.join(dst, "meta.json"), "w"), indent=1)
    print("kept", sid, "detected_by", detected)
    return 0


if __name__ == "__main__":
    sys.exit(main())

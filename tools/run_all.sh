#!/bin/sh
# runs every registered check (tier $1, default quick) sequentially and prints one line per check
TIER="${1:-quick}"
cd "$(dirname "$0")/.."
for i in 01 02 03 04 05 06 07 08 09 10 11 12 13 14 15 16 17 18 19 20; do
  s=$(date +%s)
  out=$(./check C$i $TIER 2>&1); rc=$?
  e=$(date +%s)
  echo "C$i rc=$rc $((e-s))s $(echo "$out" | grep -v KNOWN-FINDING | tail -1)"
done
